"""C11 — nothing is executed after the close decision."""
from __future__ import annotations

import ast
import itertools

from ..callgraph import get_callgraph
from ..cfg import cfg_of
from ..locks import accesses, get_locks
from ..model import AnalysisError, dotted, norm
from .common import formula_eval, formula_leaves, bool_atoms, bool_eval, find_calls, guards_of, key_of, mentions, mentions_attr

EXPLANATION = (
    "Static lock-region and dominance analysis of channel.py: the worker's close decision (close_when_flushed := True), "
    "the closing of the queued requests and the reset of the queue lie in one requests_lock region; the read path tests "
    "both close flags inside a region of the same lock and that test dominates every parse call, queue append and "
    "dispatch; every dispatch site is guarded by the close flags; readable() is false under each closing condition "
    "(truth table over its atoms); every I/O-side store of will_close is followed in the same handler by the teardown. "
    "This decides that decision and dispatch are serialised by one lock and every dispatch re-checks - not the order of "
    "application calls in every interleaving."
)

REQ_LOCK = "HTTPChannel.requests_lock"


def rule_r1(ctx, rid="C11.R1"):
    ctx.r.rule(rid, "the worker's close decision, closing of queued requests and the queue reset are in one requests_lock region")
    p = ctx.p
    lk = get_locks(p)
    f = p.func("channel.HTTPChannel.service")
    g = cfg_of(f)
    decisions = [n for n in g.nodes if n.kind == "stmt" and isinstance(n.ast, ast.Assign)
                 and any(dotted(t) == "self.close_when_flushed" for t in n.ast.targets)
                 and isinstance(n.ast.value, ast.Constant) and n.ast.value.value is True]
    ctx.r.floor(rid, len(decisions), 1, "close decisions in service()")
    for d in decisions:
        if REQ_LOCK not in lk.held_at_stmt(f, d.ast):
            ctx.r.violation(rid, key_of(f, d.ast, "decision-unlocked"), "close_when_flushed is set outside the requests lock", f.loc(d.ast))
            continue
        # the enclosing with-statement
        region = None
        for w in ast.walk(f.node):
            if isinstance(w, ast.With) and any(x is d.ast for x in ast.walk(w)) and any(lk.table.resolve(f, it.context_expr, lk.cg) == REQ_LOCK for it in w.items):
                region = w
        if region is None:
            # acquire/try/finally idiom: take the try body
            for w in ast.walk(f.node):
                if isinstance(w, ast.Try) and any(x is d.ast for x in ast.walk(w)):
                    region = w
        resets = [x for x in ast.walk(region) if isinstance(x, ast.Assign) and any(dotted(t) == "self.requests" for t in x.targets)] if region else []
        resets += [x for x in ast.walk(region) if isinstance(x, ast.Call) and dotted(x.func) == "self.requests.clear"] if region else []
        closes = [x for x in ast.walk(region) if isinstance(x, ast.For) and dotted(x.iter) == "self.requests"
                  and any(isinstance(c, ast.Call) and isinstance(c.func, ast.Attribute) and c.func.attr == "close" for c in ast.walk(x))] if region else []
        if resets:
            ctx.r.ok(rid, "queue reset in the same lock region as the close decision", f.loc(resets[0]))
        else:
            ctx.r.violation(rid, key_of(f, None, "reset-not-atomic"), "the queue is not discarded in the lock region that sets close_when_flushed", f.loc(d.ast))
        if closes:
            ctx.r.ok(rid, "queued requests closed in the same lock region", f.loc(closes[0]))
        else:
            ctx.r.violation(rid, key_of(f, None, "queued-not-closed"), "queued requests are not closed in the lock region that sets close_when_flushed", f.loc(d.ast))


def _flag_false(g, n, flag):
    for (t, pol) in guards_of(g, n):
        if pol is False and dotted(t) == "self." + flag:
            return True
    return False


def rule_r2(ctx, rid="C11.R2"):
    ctx.r.rule(rid, "received(): both close flags are tested inside the requests_lock region and the test dominates every parse call, queue append and dispatch")
    p = ctx.p
    cg = get_callgraph(p)
    lk = get_locks(p)
    f = p.func("channel.HTTPChannel.received")
    g = cfg_of(f)
    actions = []
    actions += [(n, "parse call " + norm(c)[:40]) for n, c in find_calls(g, lambda c: any(t.qual == "parser.HTTPRequestParser.received" for t in cg.callees(c)))]
    actions += [(n, "queue append") for n, c in find_calls(g, lambda c: dotted(c.func) == "self.requests.append")]
    actions += [(n, "dispatch") for n, c in find_calls(g, lambda c: any(t.qual.endswith(".add_task") for t in cg.callees(c)))]
    ctx.r.floor(rid, len(actions), 3, "parse/append/dispatch actions in received()")
    for (n, what) in actions:
        for flag in ("will_close", "close_when_flushed"):
            ok = False
            for (t, pol, b) in g.guards(n):
                if pol is False and dotted(t) == "self." + flag:
                    st = b.stmt
                    if REQ_LOCK in lk.held_at_stmt(f, st):
                        ok = True
            if ok:
                ctx.r.ok(rid, "%s is dominated by the locked test of %s" % (what, flag), f.loc(n.ast))
            else:
                ctx.r.violation(rid, key_of(f, None, "unguarded::%s::%s" % (what.split(" ")[0], flag)),
                                "%s in received() is not dominated by a test of %s inside the requests lock" % (what, flag), f.loc(n.ast))


def rule_r3(ctx, rid="C11.R3"):
    ctx.r.rule(rid, "every dispatch is guarded: the worker-side add_task is unreachable once close_on_finish / will_close was seen; task execution is guarded by connected; I/O-side will_close stores are followed by the teardown in the same handler")
    p = ctx.p
    cg = get_callgraph(p)
    f = p.func("channel.HTTPChannel.service")
    g = cfg_of(f)
    disp = find_calls(g, lambda c: any(t.qual.endswith(".add_task") for t in cg.callees(c)))
    ctx.r.floor(rid, len(disp), 1, "worker-side dispatch sites")
    for n, c in disp:
        gs = guards_of(g, n)
        for flag, where in (("close_on_finish", "task"), ("will_close", "self")):
            ok = any(pol is False and mentions_attr(t, flag) for (t, pol) in gs)
            if ok:
                ctx.r.ok(rid, "worker dispatch only on the path where %s was seen false" % flag, f.loc(n.ast))
            else:
                ctx.r.violation(rid, key_of(f, None, "dispatch-ignores::" + flag),
                                "service() queues the next request without having tested %s: a request buffered behind the close decision can still run" % flag, f.loc(n.ast))
        if any(pol is True and dotted(t) == "self.connected" for (t, pol) in gs):
            ctx.r.ok(rid, "worker dispatch guarded by connected", f.loc(n.ast))
        else:
            ctx.r.violation(rid, key_of(f, None, "dispatch-ignores::connected"), "service() queues the next request without testing connected", f.loc(n.ast))
    # R3b: execution site guarded by connected
    ex = find_calls(g, lambda c: any(t.qual == "task.Task.service" for t in cg.callees(c)))
    first = [x for x in ex if not any(isinstance(h, ast.ExceptHandler) and any(y is x[1] for y in ast.walk(h)) for h in ast.walk(f.node))]
    for n, c in first:
        if any(pol is True and dotted(t) == "self.connected" for (t, pol) in guards_of(g, n)):
            ctx.r.ok(rid, "task execution guarded by connected", f.loc(n.ast))
        else:
            ctx.r.violation(rid, key_of(f, None, "execute-ignores-connected"), "service() runs the task without testing connected", f.loc(n.ast))
    # I/O-side stores of will_close in handle_write/_flush_exception are followed by teardown in handle_write
    hw = p.func("channel.HTTPChannel.handle_write")
    gh = cfg_of(hw)
    tests = [n for n in gh.nodes if n.kind == "branch" and n.polarity and dotted(n.ast) == "self.will_close"]
    ok = False
    for b in tests:
        closes = find_calls(gh, lambda c: dotted(c.func) == "self.handle_close")
        if any(gh.dominates(b, n) for n, _ in closes) and gh.path(b, gh.exit, avoid=[n for n, _ in closes], follow_exc=False) is None:
            # the test must come after the flush and the relay (post-dominates entry on normal paths)
            if gh.path(gh.entry, gh.exit, avoid=[m for m in gh.nodes if m.kind == "test" and dotted(m.ast) == "self.will_close"], follow_exc=False) is None:
                ok = True
    if ok:
        ctx.r.ok(rid, "handle_write ends every normal path with 'if will_close: handle_close()'", hw.loc())
    else:
        ctx.r.violation(rid, key_of(hw, None, "no-teardown-after-mark"), "handle_write can return with will_close set without tearing down", hw.loc())


def rule_r4(ctx, rid="C11.R4"):
    ctx.r.rule(rid, "readable() is false under each of: will_close, close_when_flushed, queue longer than the lookahead, pending output")
    p = ctx.p
    f = p.func("channel.HTTPChannel.readable")
    from .common import return_expression
    e = return_expression(f)
    if e is None:
        raise AnalysisError("readable() does more than decide its return value")
    # the quantities the formula speaks about, valued over small domains: flags {F,T}, counters {0,1,2}
    leaves = formula_leaves(e)
    role = {}
    for t in leaves:
        if t == "self.will_close":
            role[t] = "will_close"
        elif t == "self.close_when_flushed":
            role[t] = "close_when_flushed"
        elif t == "len(self.requests)":
            role[t] = "queued"
        elif t.endswith("channel_request_lookahead"):
            role[t] = "lookahead"
        elif t.endswith("total_outbufs_len"):
            role[t] = "pending output"
        else:
            role[t] = "other"
    have = set(role.values())
    for name in ("will_close", "close_when_flushed", "queued", "lookahead", "pending output"):
        if name not in have:
            ctx.r.violation(rid, key_of(f, None, "readable-missing::" + ("lookahead" if name in ("queued", "lookahead") else name)),
                            "readable() does not consult %s" % name, f.loc())
    dom = {t: ((0, 1, 2) if role[t] in ("queued", "lookahead", "pending output") else (False, True)) for t in leaves}
    bad = {}
    clear_ok = True
    for vals in itertools.product(*[dom[t] for t in leaves]):
        env = dict(zip(leaves, vals))
        try:
            v = bool(formula_eval(e, env))
        except (KeyError, TypeError) as ex:
            raise AnalysisError("cannot evaluate readable(): %s" % ex)
        r = {role[t]: env[t] for t in leaves}
        stops = {
            "will_close": r.get("will_close") is True,
            "close_when_flushed": r.get("close_when_flushed") is True,
            "lookahead": ("queued" in r and "lookahead" in r and r["queued"] > r["lookahead"]),
            "pending output": bool(r.get("pending output")),
        }
        for name, on in stops.items():
            if on and v:
                bad.setdefault(name, env)
        if not any(stops.values()) and all(env[t] is False for t in leaves if role[t] == "other") and not v:
            clear_ok = False
    for name in ("will_close", "close_when_flushed", "lookahead", "pending output"):
        if name in bad:
            ctx.r.violation(rid, key_of(f, None, "readable-true-under::" + name), "readable() can be true although %s holds (e.g. %s)" % (name, bad[name]), f.loc())
        else:
            ctx.r.ok(rid, "readable() is false whenever %s holds" % name, f.loc())
    if clear_ok:
        ctx.r.ok(rid, "reading stops only once more than `lookahead` requests are queued (readable with queue length <= lookahead and nothing pending)", f.loc())
    else:
        ctx.r.violation(rid, key_of(f, None, "lookahead-comparison"), "readable() is false although nothing is pending and the queue is not longer than the lookahead", f.loc())


def rule_r5(ctx):
    rid = "C11.R5"
    ctx.r.rule(rid, "writers of the close flags are the enumerated ones (informational)")
    p = ctx.p
    chan = p.cls("channel.HTTPChannel")
    ws = []
    for flag in ("will_close", "close_when_flushed"):
        for a in accesses(p, flag, [chan]):
            if a.kind == "write":
                ws.append("%s in %s" % (flag, a.func.qual))
                ctx.r.ok(rid, "writer of %s: %s" % (flag, a.func.qual), a.loc)
    ctx.r.note("close_flag_writers", sorted(set(ws)))
    ctx.r.floor(rid, len(ws), 6, "stores to the close flags")


def rule_r6(ctx, rid="C11.R6"):
    ctx.r.rule(rid, "the close decision is never dropped: wherever close_when_flushed is cleared, will_close is set on every path that follows (or the teardown runs); on I/O errors the read handler tears the channel down itself")
    p = ctx.p
    chan = p.cls("channel.HTTPChannel")
    n = 0
    for a in accesses(p, "close_when_flushed", [chan]):
        if a.kind != "write" or not isinstance(a.stmt, ast.Assign) or not (isinstance(a.stmt.value, ast.Constant) and a.stmt.value.value is False):
            continue
        if a.func.name == "__init__":
            continue
        n += 1
        g = cfg_of(a.func)
        marks = [x for x in g.nodes if x.kind == "stmt" and isinstance(x.ast, ast.Assign) and any(dotted(t) == "self.will_close" for t in x.ast.targets)
                 and isinstance(x.ast.value, ast.Constant) and x.ast.value.value is True]
        marks += [x for x, c in find_calls(g, lambda c: dotted(c.func) == "self.handle_close")]
        bad = None
        for nd in g.nodes_of(a.stmt):
            pth = g.path(nd, g.exit, avoid=marks, follow_exc=False)
            if pth is not None:
                bad = pth
        if bad is None:
            ctx.r.ok(rid, "%s: clearing close_when_flushed is always followed by will_close = True" % a.func.name, a.loc)
        else:
            ctx.r.violation(rid, key_of(a.func, None, "close-decision-dropped"),
                            "%s clears close_when_flushed on a path that does not set will_close (%s): once the rest is flushed the channel reads and serves again although the connection was to be closed"
                            % (a.func.qual, g.describe_path(bad)), a.loc)
    ctx.r.floor(rid, n, 1, "places where close_when_flushed is cleared")
    # a failing recv tears down at once (only handle_close clears `connected`, the one guard of an already queued task)
    hr = p.func("channel.HTTPChannel.handle_read")
    gh = cfg_of(hr)
    hs = [x for x in gh.nodes if x.kind == "handler"]
    for h in hs:
        closes = [x for x, c in find_calls(gh, lambda c: dotted(c.func) == "self.handle_close")]
        pth = gh.path(h, gh.exit, avoid=closes, follow_exc=False)
        if pth is None:
            ctx.r.ok(rid, "handle_read: an I/O error tears the channel down in the handler", hr.loc(h.ast))
        else:
            ctx.r.violation(rid, key_of(hr, None, "read-error-no-teardown"),
                            "handle_read's `except %s` can return without handle_close(): `connected` stays true and a request that is already queued is still executed after the connection failed"
                            % (norm(h.ast.type) if h.ast.type is not None else ""), hr.loc(h.ast))


def rule_r7(ctx):
    """Shared with C13.R6 (teardown clears `connected` inside the lock, before waking a paused worker - `connected` is the
    worker-side guard of the next pipelined request) and C01.R7 (the parser's close verdict reaches the response
    builder on every version path - otherwise the connection is announced and kept alive)."""
    from . import c01, c13
    c13.rule_r6(ctx, rid="C11.R7")
    c01.rule_r7(ctx, rid="C11.R7")


def rule_r8(ctx):
    """Shared with C13.R5: a socket error swallowed while flushing marks the channel for closing on every path through the
    handler - `will_close` is what the worker's keep-alive decision reads before it dispatches the next pipelined request."""
    from . import c13
    c13.rule_r5(ctx, rid="C11.R8")


def rule_r9(ctx):
    """Shared with C09.R9: the close decision after a swallowed socket error is taken on every path (close_on_finish), so no later request of the connection is executed."""
    from . import c01, c09
    c09.rule_r9(ctx, rid="C11.R9")
    c01.rule_r8(ctx, rid="C11.R9")  # ... and a Transfer-Encoding outside HTTP/1.1 is a close decision for every such version
    c01.rule_r6(ctx, rid="C11.R9")  # ... and so is a Content-Length next to Transfer-Encoding, whatever its value


def rule_r10(ctx, rid="C11.R10"):
    ctx.r.rule(rid, "a worker paused on the output condition is woken by the I/O thread either because the flush succeeded or by the teardown (connected already False): no notify is reachable through the exceptional exit of a flush - woken after a failed flush, before the teardown ran, the worker sees a live connection and goes on to the next pipelined request although the close decision has been taken")
    from .c12 import _cond_calls
    n_sites = 0
    for meth in ("notify", "notify_all"):
        for (f, g, n, c) in _cond_calls(ctx, meth):
            if f.name == "handle_close":
                continue
            n_sites += 1
            flushes = [m for m in g.nodes if m.ast is not None and m.kind in ("stmt", "branch", "test") and m is not n
                       and any(isinstance(x, ast.Call) and isinstance(x.func, ast.Attribute) and x.func.attr in ("_flush_some", "send") for x in ast.walk(m.ast))]
            bad = None
            for m in flushes:
                for (sx, lab) in m.succ:
                    if lab == "exc" and (sx is n or n.id in g.reach(sx)):
                        bad = m
            if bad is None:
                ctx.r.ok(rid, "%s() in %s is not reached after a failed flush" % (meth, f.name), f.loc(n.ast))
            else:
                ctx.r.violation(rid, key_of(f, None, "notify-after-failed-flush"), "%s() on the output condition in %s also runs when `%s` raised: the paused worker is released before handle_close() has cleared `connected` and executes the next queued request of a connection that is being closed" % (meth, f.qual, norm(bad.ast)[:50]), f.loc(n.ast))
    ctx.r.floor(rid, n_sites, 1, "notify sites outside the teardown")


RULES = [rule_r1, rule_r2, rule_r3, rule_r4, rule_r5, rule_r6, rule_r7, rule_r8, rule_r9, rule_r10]

from ..selftest import M, T, V  # noqa: E402

selftest = [
    M("flag-test-outside-lock", "channel.py", "        with self.requests_lock:\n            # Don't bother processing anymore data if this connection is about\n            # to close. This may happen if readable() returned True, on the\n            # main thread before the service thread set the close_when_flushed\n            # flag, and we read data but our service thread is attempting to\n            # shut down the connection due to an error. We want to make sure we\n            # do this while holding the request_lock so that we can't race\n            if self.will_close or self.close_when_flushed:\n                return False\n",
      "        if self.will_close or self.close_when_flushed:\n            return False\n        with self.requests_lock:\n", "R2"),
    M("flag-test-removed", "channel.py", "            if self.will_close or self.close_when_flushed:\n                return False\n", "", "R2"),
    M("only-will_close-tested", "channel.py", "            if self.will_close or self.close_when_flushed:\n                return False\n", "            if self.will_close:\n                return False\n", "R2"),
    M("decision-before-lock", "channel.py", "            with self.requests_lock:\n                self.close_when_flushed = True\n", "            self.close_when_flushed = True\n            with self.requests_lock:\n", "R1"),
    M("queue-not-cleared", "channel.py", "                for request in self.requests:\n                    request.close()\n                self.requests = []\n        else:", "                for request in self.requests:\n                    request.close()\n        else:", "R1"),
    M("queue-cleared-outside", "channel.py", "                for request in self.requests:\n                    request.close()\n                self.requests = []\n        else:", "                for request in self.requests:\n                    request.close()\n            self.requests = []\n        else:", "R1"),
    M("will_close-ignored", "channel.py", "        if task.close_on_finish or self.will_close:", "        if task.close_on_finish:", "R3"),
    M("dispatch-not-connected", "channel.py", "                if self.connected and self.requests:\n                    self.server.add_task(self)", "                if self.requests:\n                    self.server.add_task(self)", "R3"),
    M("readable-ignores-cwf", "channel.py", "            self.will_close\n            or self.close_when_flushed\n            or len(self.requests)", "            self.will_close\n            or len(self.requests)", "R4"),
    M("readable-ge-lookahead-inverted", "channel.py", "or len(self.requests) > self.adj.channel_request_lookahead", "or len(self.requests) < self.adj.channel_request_lookahead", "R4"),
    M("handle_write-no-teardown", "channel.py", "        if self.will_close:\n            self.handle_close()\n\n    def _flush_exception", "        if self.will_close and self.total_outbufs_len:\n            self.handle_close()\n\n    def _flush_exception", None),
    M("execute-unconditional", "channel.py", "            if self.connected:\n                task.service()\n            else:\n                task.close_on_finish = True", "            task.service()", "R3"),
    T("flags-tested-separately", "channel.py", "            if self.will_close or self.close_when_flushed:\n                return False\n", "            if self.will_close:\n                return False\n            if self.close_when_flushed:\n                return False\n"),
    T("readable-demorgan", "channel.py", "        return not (\n            self.will_close\n            or self.close_when_flushed\n            or len(self.requests) > self.adj.channel_request_lookahead\n            or self.total_outbufs_len\n        )", "        return (\n            not self.will_close\n            and not self.close_when_flushed\n            and not len(self.requests) > self.adj.channel_request_lookahead\n            and not self.total_outbufs_len\n        )"),
    T("decision-nested-if", "channel.py", "        if task.close_on_finish or self.will_close:", "        if self.will_close or task.close_on_finish:"),
]
