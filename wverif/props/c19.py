"""C19 — Expect: 100-continue is answered correctly and the request is never lost."""
from __future__ import annotations

import ast

from ..callgraph import get_callgraph
from ..cfg import cfg_of
from ..locks import accesses, get_locks
from ..model import AnalysisError, NotConst, dotted, norm, walk_own
from .common import find_calls, guards_of, key_of, mentions, mentions_attr

EXPLANATION = (
    "Static effect / guard analysis: the parser's verdict fields (completed, error, empty, headers_finished) are written "
    "only by the parser's own methods (or on an object constructed in the writing function); both call sites of the "
    "interim sender are inside the requests lock and guarded by the same four atoms (expecting, head finished, latch "
    "clear, no other request owning the connection); the sender sets the latch and clears the request's expectation, "
    "the latch is cleared only where a request completes; the interim bytes constant-fold to the exact status line and "
    "are appended under the output lock; the expectation is only ever recorded on the HTTP/1.1 path from a comparison "
    "with '100-continue'; after sending, the completed test that dispatches the request is still reached; the "
    "worker-side sender obeys the ownership and teardown rules (shared with C04.R2 / C13.R1). Wire ordering under "
    "interleavings is not decided."
)

REQ_LOCK = "HTTPChannel.requests_lock"
OUT_LOCK = "HTTPChannel.outbuf_lock"
VERDICT = ("completed", "error", "empty", "headers_finished")


def rule_r1(ctx):
    rid = "C19.R1"
    ctx.r.rule(rid, "the parser's verdict (completed/error/empty/headers_finished) is written only by the parser itself, or on an object constructed in the writing function")
    p = ctx.p
    parser = p.cls("parser.HTTPRequestParser")
    n = 0
    for attr in VERDICT:
        for a in accesses(p, attr, [parser]):
            if a.kind != "write":
                continue
            g = a.func
            while g.parent is not None:
                g = g.parent
            if g.cls is not None and (parser in g.cls.mro):
                n += 1
                ctx.r.ok(rid, "%s written by the parser (%s)" % (attr, a.func.name), a.loc)
                continue
            if a.classes and parser not in a.classes and not any(parser in c.mro for c in a.classes):
                continue  # e.g. receiver.completed, task.* : other classes
            if not a.classes:
                # unknown receiver type: only self.request.* style chains matter
                d = dotted(a.recv) or ""
                if "request" not in d:
                    continue
            n += 1
            # receiver is a local constructed in this function?
            fresh = False
            if isinstance(a.recv, ast.Name):
                for node in walk_own(a.func.node):
                    if isinstance(node, ast.Assign) and any(isinstance(t, ast.Name) and t.id == a.recv.id for t in node.targets) and isinstance(node.value, ast.Call):
                        cg = get_callgraph(p)
                        if any(t.qual == "parser.HTTPRequestParser.__init__" for t in cg.callees(node.value)) or "parser_class" in norm(node.value.func):
                            fresh = True
            if fresh:
                ctx.r.ok(rid, "%s written on a parser object constructed in %s" % (attr, a.func.name), a.loc)
            else:
                ctx.r.violation(rid, key_of(a.func, a.stmt, "verdict-overwritten::" + attr),
                                "%s overwrites the parser's %s (%s): a complete request may never be dispatched, or an error verdict lost" % (a.func.qual, attr, norm(a.stmt)[:60]), a.loc)
    ctx.r.floor(rid, n, 10, "writes of the parser verdict fields")


def _send_sites(ctx):
    p = ctx.p
    cg = get_callgraph(p)
    out = []
    for f in p.functions.values():
        if not f.qual.startswith("channel.HTTPChannel."):
            continue
        g = cfg_of(f)
        for n, c in find_calls(g, lambda c: any(t.qual == "channel.HTTPChannel.send_continue" for t in cg.callees(c))):
            out.append((f, g, n, c))
    return out


def rule_r2(ctx, rid="C19.R2"):
    ctx.r.rule(rid, "both senders of the interim response are inside the requests lock and guarded by: expecting, head finished, not yet sent, and no other request owning the connection")
    p = ctx.p
    lk = get_locks(p)
    sites = _send_sites(ctx)
    ctx.r.floor(rid, len(sites), 2, "call sites of send_continue")
    for (f, g, n, c) in sites:
        st = lk.stmt_of_node(f, n)
        if REQ_LOCK in lk.held_at_stmt(f, st):
            ctx.r.ok(rid, "send_continue() in %s holds the requests lock" % f.name, f.loc(n.ast))
        else:
            ctx.r.violation(rid, key_of(f, None, "continue-unlocked"), "send_continue() called outside the requests lock in %s" % f.qual, f.loc(n.ast))
        gs = guards_of(g, n)
        need = {
            "expecting": any(pol and mentions_attr(t, "expect_continue") for (t, pol) in gs),
            "head finished": any(pol and mentions_attr(t, "headers_finished") for (t, pol) in gs),
            "latch clear": any((not pol) and dotted(t) == "self.sent_continue" for (t, pol) in gs),
        }
        # ownership atom
        if f.name == "service":
            q = any(pol and isinstance(t, ast.Compare) and norm(t).replace(" ", "") in ("len(self.requests)==1", "1==len(self.requests)") for (t, pol) in gs) \
                or any((not pol) and dotted(t) == "self.requests" for (t, pol) in gs)
            need["last queued request (nothing else owns the output)"] = q
            need["connected"] = any(pol and dotted(t) == "self.connected" for (t, pol) in gs)
            need["a request is in progress"] = any(pol and isinstance(t, ast.Compare) and "self.request is not None" == norm(t) for (t, pol) in gs) or \
                any((not pol) and norm(t) == "self.request is None" for (t, pol) in gs)
            # the test "I am the last queued request" and the removal of that request are ONE critical section: were the
            # lock released in between, the I/O thread could parse an expecting head there, see a request still queued and
            # leave the interim response to the worker - which has already made its test
            pops = [m for m in g.nodes if m.kind == "stmt" and m.ast is not None and (any(isinstance(c, ast.Call) and dotted(c.func) == "self.requests.pop" for c in ast.walk(m.ast))
                                                                                    or (isinstance(m.ast, ast.Delete) and any(isinstance(t, ast.Subscript) and dotted(t.value) == "self.requests" for t in m.ast.targets)))]
            owner_tests = [b for (_t, pol, b) in g.guards(n) if mentions(b.ast, "self.requests")]
            if not pops:
                raise AnalysisError("anchor vanished: the removal of the finished request in service()")
            src = owner_tests[0] if owner_tests else None  # without an ownership test the guard itself is reported below
            fwd = g.reach(src, follow_exc=False) if src is not None else set()
            gap = None
            for pnode in pops:
                if pnode.id not in fwd:
                    continue
                for m in g.nodes:
                    if m.id in fwd and m is not src and m is not pnode and pnode.id in g.reach(m, follow_exc=False) and g.path(src, m, avoid=[pnode], follow_exc=False) is not None \
                            and m.ast is not None and REQ_LOCK not in lk.held_at(f, m):
                        gap = m
            if src is None:
                pass
            elif gap is None:
                ctx.r.ok(rid, "the ownership test of the worker-side sender and the removal of the finished request are one requests-lock region", f.loc(n.ast))
            else:
                ctx.r.violation(rid, key_of(f, None, "continue-test-pop-not-atomic"), "the requests lock is not held from the worker's test `%s` to the removal of its request (released at line %s): the I/O thread can parse an expecting head in between, finds a request still queued and sends nothing - and the worker has already tested: nobody sends the interim response" % (norm(src.ast)[:60], getattr(gap.ast, "lineno", "?")), f.loc(n.ast))
        else:
            need["no request queued"] = any((not pol) and dotted(t) == "self.requests" for (t, pol) in gs)
            # the I/O-side test reads the parser AFTER it was fed the bytes of this round: the call that can finish the
            # head dominates the sender (tested before the feed, a head that ends exactly at the end of a read is never
            # answered - the client sends nothing more until it got the interim response)
            feeds = [m for m in g.nodes if m.ast is not None and m.kind in ("stmt", "branch", "test") and any(isinstance(c, ast.Call) and isinstance(c.func, ast.Attribute) and c.func.attr == "received" and dotted(c.func.value) in ("self.request", "request") for c in ast.walk(m.ast))]
            if not feeds:
                raise AnalysisError("anchor vanished: the parser feed in HTTPChannel.received")
            if any(g.dominates(m, n) and g.path(m, n, avoid=[x for x in g.nodes if x.kind == "join" and x.label == "loop_head"], follow_exc=False) is not None for m in feeds):
                ctx.r.ok(rid, "the I/O-side sender tests the parser after feeding it this round's bytes", f.loc(n.ast))
            else:
                ctx.r.violation(rid, key_of(f, None, "continue-test-before-feed"), "send_continue() in received() is decided before the parser was fed the bytes of this round: an expecting head that ends with the read is answered only when more bytes arrive - which a waiting client never sends", f.loc(n.ast))
        for k, v in need.items():
            if v:
                ctx.r.ok(rid, "%s-side sender guarded by: %s" % (f.name, k), f.loc(n.ast))
            else:
                ctx.r.violation(rid, key_of(f, None, "continue-guard-missing::" + k.split(" (")[0]), "send_continue() in %s is not guarded by '%s'" % (f.qual, k), f.loc(n.ast))
        # what the guards read is read inside the lock: a local standing for self.request must have been taken while the
        # requests lock was held (the I/O thread creates and fills the parser under that lock; a copy made before the
        # lock was taken can be stale - None - when the test is made, and then nobody sends the interim response)
        for (_t, pol, bnode) in g.guards(n):
            t = bnode.ast  # the test as written (guards() shows snapshot locals expanded, which would hide the local)
            if not (mentions_attr(t, "expect_continue") or mentions_attr(t, "headers_finished")):
                continue
            for x in ast.walk(t):
                if isinstance(x, ast.Attribute) and x.attr in ("expect_continue", "headers_finished") and isinstance(x.value, ast.Name) and x.value.id != "self":
                    defs = [d for d in ast.walk(f.node) if isinstance(d, ast.Assign) and any(isinstance(tt, ast.Name) and tt.id == x.value.id for tt in d.targets)]
                    stale = [d for d in defs if REQ_LOCK not in lk.held_at_stmt(f, d)]
                    if stale:
                        ctx.r.violation(rid, key_of(f, None, "continue-guard-stale::" + x.value.id),
                                        "the guard of send_continue() in %s reads `%s.%s` through a local bound outside the requests lock (%s): the I/O thread can create the expecting request in between, the stale copy says there is none and the client never gets its interim response"
                                        % (f.qual, x.value.id, x.attr, norm(stale[0])[:50]), f.loc(stale[0]))
                    else:
                        ctx.r.ok(rid, "%s is bound under the requests lock" % x.value.id, f.loc(n.ast))
        # ... and by nothing else: the two senders split the cases on "is another request queued" only.  A further
        # condition on either side leaves an expecting client with no sender (nothing re-evaluates the test: the client
        # sends no more bytes until it got the interim response).  Conditions on the liveness of the connection and on
        # the bytes just read are the exception - they hold whenever an interim response is still of any use.
        own = {"expect_continue", "headers_finished", "sent_continue", "requests", "request", "connected", "will_close", "close_when_flushed", "close_on_finish"}
        for (t, pol) in gs:
            attrs = {x.attr for x in ast.walk(t) if isinstance(x, ast.Attribute)}
            names = {x.id for x in ast.walk(t) if isinstance(x, ast.Name)} - {"self", "len"}
            if attrs <= own:
                continue
            ctx.r.violation(rid, key_of(f, None, "continue-guard-extra::" + norm(t)[:50]),
                            "send_continue() in %s is additionally guarded by `%s` (%s): when that fails for an expecting request the other sender's condition does not take over, the client never gets its interim response and waits for ever"
                            % (f.qual, norm(t)[:80], "must hold" if pol else "must not hold"), f.loc(n.ast))


def rule_r3(ctx, rid="C19.R3"):
    ctx.r.rule(rid, "at most one interim per request: the sender sets the latch and clears the expectation; the latch is cleared only where a request completes")
    p = ctx.p
    f = p.func("channel.HTTPChannel.send_continue")
    g = cfg_of(f)

    def stores(attr_path, value):
        return [n for n in g.nodes if n.kind == "stmt" and isinstance(n.ast, ast.Assign) and any(dotted(t) == attr_path for t in n.ast.targets)
                and isinstance(n.ast.value, ast.Constant) and n.ast.value.value is value]
    for path, val, what in (("self.sent_continue", True, "sets the latch"), ("self.request.expect_continue", False, "clears the expectation")):
        st = stores(path, val)
        if st and g.path(g.entry, g.exit, avoid=st, follow_exc=False) is None:
            ctx.r.ok(rid, "send_continue %s on every path" % what, f.loc(st[0].ast))
        else:
            ctx.r.violation(rid, key_of(f, None, "sender-" + path), "send_continue does not always %s (%s = %s)" % (what, path, val), f.loc())
    chan = p.cls("channel.HTTPChannel")
    n = 0
    for a in accesses(p, "sent_continue", [chan]):
        if a.kind != "write" or not (isinstance(a.stmt, ast.Assign) and isinstance(a.stmt.value, ast.Constant) and a.stmt.value.value is False):
            continue
        n += 1
        g2 = cfg_of(a.func)
        nodes = g2.nodes_of(a.stmt)
        ok = nodes and all(any(pol and mentions_attr(t, "completed") for (t, pol) in guards_of(g2, nd)) for nd in nodes)
        if ok:
            ctx.r.ok(rid, "latch cleared only when the request completed (%s)" % a.func.name, a.loc)
        else:
            ctx.r.violation(rid, key_of(a.func, None, "latch-cleared-early"), "sent_continue is reset in %s although the request is not complete: a second 100 Continue can be sent" % a.func.qual, a.loc)
    # constructor stores do not count: the latch must be re-armed per request
    n_rearm = len([a for a in accesses(p, "sent_continue", [chan]) if a.kind == "write" and a.func.name != "__init__"
                   and isinstance(a.stmt, ast.Assign) and isinstance(a.stmt.value, ast.Constant) and a.stmt.value.value is False])
    if n_rearm == 0:
        ctx.r.violation(rid, "latch-never-cleared", "sent_continue is never reset after a request completed: the second expecting request on a connection gets no 100 Continue, its client never sends the body and the request is never answered", "src/waitress/channel.py")


def rule_r4(ctx, rid="C19.R4"):
    ctx.r.rule(rid, "the interim bytes are exactly b'HTTP/1.1 100 Continue\\r\\n\\r\\n', appended (and counted) inside the output lock")
    p = ctx.p
    lk = get_locks(p)
    f = p.func("channel.HTTPChannel.send_continue")
    g = cfg_of(f)
    apps = find_calls(g, lambda c: isinstance(c.func, ast.Attribute) and c.func.attr == "append" and mentions(c.func.value, "self.outbufs"))
    if not apps:
        ctx.r.violation(rid, key_of(f, None, "no-append"), "send_continue does not append to the output buffers", f.loc())
        return
    consts = {}
    for node in walk_own(f.node):
        if isinstance(node, ast.Assign) and len(node.targets) == 1 and isinstance(node.targets[0], ast.Name):
            try:
                consts[node.targets[0].id] = p.fold(node.value, f.module)
            except NotConst:
                pass
    for n, c in apps:
        a0 = c.args[0]
        val = None
        try:
            val = p.fold(a0, f.module, consts)
        except NotConst:
            pass
        if val == b"HTTP/1.1 100 Continue\r\n\r\n":
            ctx.r.ok(rid, "interim response bytes are exact", f.loc(n.ast))
        else:
            ctx.r.violation(rid, key_of(f, None, "interim-bytes"), "interim response bytes are %r" % (val,), f.loc(n.ast))
        if OUT_LOCK in lk.held_at_stmt(f, lk.stmt_of_node(f, n)):
            ctx.r.ok(rid, "interim bytes appended under the output lock", f.loc(n.ast))
        else:
            ctx.r.violation(rid, key_of(f, None, "interim-unlocked"), "interim bytes appended outside the output lock", f.loc(n.ast))
        if isinstance(c.func.value, ast.Subscript) and norm(c.func.value.slice) == "-1":
            ctx.r.ok(rid, "appended to the last (writable) buffer: after every earlier response", f.loc(n.ast))
        else:
            ctx.r.violation(rid, key_of(f, None, "interim-position"), "interim bytes not appended to the last output buffer (%s)" % norm(c.func.value), f.loc(n.ast))
    incs = [n for n in g.nodes if n.kind == "stmt" and isinstance(n.ast, ast.AugAssign) and dotted(n.ast.target) == "self.total_outbufs_len"]
    if incs and all(OUT_LOCK in lk.held_at_stmt(f, i.ast) for i in incs):
        ctx.r.ok(rid, "pending-output counter updated under the lock", f.loc(incs[0].ast))
    else:
        ctx.r.violation(rid, key_of(f, None, "counter"), "send_continue does not account the interim bytes in total_outbufs_len under the lock", f.loc())


def rule_r5(ctx):
    rid = "C19.R5"
    ctx.r.rule(rid, "never for HTTP/1.0 or unasked: expect_continue is assigned only on the version == '1.1' path from a comparison with '100-continue'")
    p = ctx.p
    parser = p.cls("parser.HTTPRequestParser")
    n = 0
    for a in accesses(p, "expect_continue", [parser]):
        if a.kind != "write":
            continue
        g0 = a.func
        while g0.parent is not None:
            g0 = g0.parent
        if g0.cls is None or parser not in g0.cls.mro:
            # channel clears it (False) in send_continue: allowed only with constant False
            if isinstance(a.stmt, ast.Assign) and isinstance(a.stmt.value, ast.Constant) and a.stmt.value.value is False:
                ctx.r.ok(rid, "%s only clears the expectation" % a.func.name, a.loc)
            else:
                ctx.r.violation(rid, key_of(a.func, a.stmt, "expect-set-outside-parser"), "%s sets expect_continue" % a.func.qual, a.loc)
            continue
        n += 1
        g = cfg_of(a.func)
        nodes = g.nodes_of(a.stmt)
        v11 = nodes and all(any(pol and isinstance(t, ast.Compare) and norm(t).replace('"', "'") in ("version == '1.1'", "'1.1' == version", "self.version == '1.1'") for (t, pol) in guards_of(g, nd)) for nd in nodes)
        val = a.stmt.value if isinstance(a.stmt, ast.Assign) else None
        cmp_ok = False
        if isinstance(val, ast.Compare) and len(val.ops) == 1 and isinstance(val.ops[0], ast.Eq):
            consts = [x.value for x in ast.walk(val) if isinstance(x, ast.Constant)]
            cmp_ok = "100-continue" in consts
        if isinstance(val, ast.Constant) and val.value is False:
            ctx.r.ok(rid, "the parser records 'no expectation' (constant False)", a.loc)
        elif v11 and cmp_ok:
            ctx.r.ok(rid, "expectation recorded only for HTTP/1.1 and only for '100-continue'", a.loc)
        else:
            ctx.r.violation(rid, key_of(a.func, None, "expect-assign"), "expect_continue assigned from %s (on the 1.1 path: %s)" % (norm(val) if val is not None else "?", bool(v11)), a.loc)
        # the compared value derives from the EXPECT header, lower-cased
        if isinstance(val, ast.Compare):
            names = [x.id for x in ast.walk(val) if isinstance(x, ast.Name)]
            src_ok = "'EXPECT'" in norm(val) and ".lower()" in norm(val)  # compared in place: headers['EXPECT'].lower() == ...
            for nm in names:
                for node in walk_own(a.func.node):
                    if isinstance(node, ast.Assign) and any(isinstance(t, ast.Name) and t.id == nm for t in node.targets):
                        txt = norm(node.value)
                        if "'EXPECT'" in txt and ".lower()" in txt:
                            src_ok = True
            if src_ok:
                ctx.r.ok(rid, "compared value is the lower-cased Expect field", a.loc)
            else:
                ctx.r.violation(rid, key_of(a.func, None, "expect-source"), "expect_continue is not derived from the lower-cased Expect header", a.loc)
    ctx.r.floor(rid, n, 1, "assignments of expect_continue in the parser")


def rule_r6(ctx):
    rid = "C19.R6"
    ctx.r.rule(rid, "after the interim response is queued in received(), the completed test that dispatches the request is still reached")
    p = ctx.p
    f = p.func("channel.HTTPChannel.received")
    g = cfg_of(f)
    sites = [(n, c) for (ff, gg, n, c) in _send_sites(ctx) if ff is f]
    tests = [n for n in g.nodes if n.kind == "test" and mentions_attr(n.ast, "completed")]
    if not tests:
        raise AnalysisError("received() no longer tests request.completed")
    for (n, c) in sites:
        heads = [m for m in g.nodes if m.kind == "join" and m.label == "loop_head"]
        escape = None
        for goal in [g.exit] + heads:
            pth = g.path(n, goal, avoid=tests, follow_exc=False)
            if pth is not None:
                escape = pth
        if escape is None:
            ctx.r.ok(rid, "every path from send_continue() reaches the completed test of the same iteration", f.loc(n.ast))
        else:
            ctx.r.violation(rid, key_of(f, None, "continue-skips-dispatch"), "after send_continue() a path skips the completed test: a body-less expecting request is never dispatched", f.loc(n.ast))


def rule_r7(ctx):
    """Shared: the worker-side sender obeys C04.R2 (ownership) and C13.R1 (no teardown on workers)."""
    from . import c04, c13
    rid = "C19.R7"
    ctx.r.rule(rid, "the worker-side sender obeys the ownership protocol (C04.R2) and never tears down (C13.R1)")
    before = len(ctx.r.violations)
    c04.rule_r2(ctx, rid=rid)
    c13.rule_r1(ctx, rid=rid)
    c04.rule_r1(ctx, rid=rid)  # the interim bytes are appended *and flushed* inside the output lock
    new = [v for v in ctx.r.violations[before:] if "send_continue" in (v["key"] + v["msg"] + str(v.get("detail")))]
    # keep only violations that concern the interim sender; others belong to C04/C13
    ctx.r.violations[before:] = new
    if not new:
        ctx.r.ok(rid, "worker-side send_continue: no output access after dequeue, no teardown path")


def rule_r8(ctx, rid="C19.R8"):
    ctx.r.rule(rid, "the parser reports the head as finished for every request whose head it parsed: in HTTPRequestParser.received every return taken after the end of the head was found (other than the over-limit refusal) is preceded, on every path, by headers_finished = True - both senders of the interim response require that flag, whatever the body framing is")
    p = ctx.p
    f = p.func("parser.HTTPRequestParser.received")
    g = cfg_of(f)
    stores = [n for n in g.nodes if n.kind == "stmt" and isinstance(n.ast, ast.Assign) and any(dotted(t) == "self.headers_finished" for t in n.ast.targets) and isinstance(n.ast.value, ast.Constant) and n.ast.value.value is True]
    if not stores:
        ctx.r.violation(rid, key_of(f, None, "headers-finished-never-set"), "HTTPRequestParser.received never sets headers_finished", f.loc())
        return
    # the statements that handle a found head: parse_header calls (not the synthetic one of the refusal) and the empty mark
    starts = [n for n, c in find_calls(g, lambda c: dotted(c.func) == "self.parse_header" and not (c.args and isinstance(c.args[0], ast.Constant)))]
    starts += [n for n in g.nodes if n.kind == "stmt" and isinstance(n.ast, ast.Assign) and any(dotted(t) == "self.empty" for t in n.ast.targets)]
    ctx.r.floor(rid, len(starts), 2, "places where a found head is handled")
    for sn in starts:
        pth = g.path(sn, g.exit, avoid=stores, follow_exc=False)
        if pth is None:
            ctx.r.ok(rid, "after `%s` every normal way out sets headers_finished" % norm(sn.ast)[:40], f.loc(sn.ast))
        else:
            ctx.r.violation(rid, key_of(f, None, "headers-finished-skipped"), "received() can return after handling a complete head without setting headers_finished (%s): an `Expect: 100-continue` request on such a path is never answered with the interim response" % g.describe_path(pth), f.loc(sn.ast))


RULES = [rule_r1, rule_r2, rule_r3, rule_r4, rule_r5, rule_r6, rule_r7, rule_r8]

from ..selftest import M, T, V  # noqa: E402

selftest = [
    M("continue-extra-guard", "channel.py", "                    and not self.requests\n                    and not self.sent_continue\n                ):", "                    and not self.requests\n                    and not self.sent_continue\n                    and not self.total_outbufs_len\n                ):", "R2"),
    T("continue-liveness-guard", "channel.py", "                    and not self.requests\n                    and not self.sent_continue\n                ):", "                    and not self.requests\n                    and not self.sent_continue\n                    and self.connected\n                ):"),
    M("completed-reset", "channel.py", "            self._flush_exception(self._flush_some, do_close=False)\n\n    def received", "            self._flush_exception(self._flush_some, do_close=False)\n        self.request.completed = False\n\n    def received", "R1"),
    M("error-cleared", "channel.py", "                n = self.request.received(data)\n", "                n = self.request.received(data)\n                self.request.error = None\n", "R1"),
    M("no-latch-test", "channel.py", "                    and not self.requests\n                    and not self.sent_continue\n                ):", "                    and not self.requests\n                ):", "R2"),
    M("io-sender-ignores-queue", "channel.py", "                    and self.request.headers_finished\n                    and not self.requests\n", "                    and self.request.headers_finished\n", "R2"),
    M("worker-sender-not-last", "channel.py", "                    len(self.requests) == 1\n                    and self.connected", "                    self.connected", "R2"),
    M("latch-not-set", "channel.py", "            self.total_outbufs_len += num_bytes\n            self.sent_continue = True\n", "            self.total_outbufs_len += num_bytes\n", "R3"),
    M("latch-cleared-every-read", "channel.py", "                n = self.request.received(data)\n", "                n = self.request.received(data)\n                self.sent_continue = False\n", "R3"),
    M("interim-bytes-typo", "channel.py", 'outbuf_payload = b"HTTP/1.1 100 Continue\\r\\n\\r\\n"', 'outbuf_payload = b"HTTP/1.1 100 Continue\\r\\n"', "R4"),
    M("interim-outside-lock", "channel.py", "        with self.outbuf_lock:\n            self.outbufs[-1].append(outbuf_payload)\n            self.current_outbuf_count += num_bytes", "        self.outbufs[-1].append(outbuf_payload)\n        with self.outbuf_lock:\n            self.current_outbuf_count += num_bytes", "R4"),
    M("expect-for-1.0", "parser.py", '            expect = headers.get("EXPECT", "").lower()\n            self.expect_continue = expect == "100-continue"\n\n            if connection.lower() == "close":\n                self.connection_close = True\n', '            if connection.lower() == "close":\n                self.connection_close = True\n\n        expect = headers.get("EXPECT", "").lower()\n        self.expect_continue = expect == "100-continue"\n', "R5"),
    M("expect-any-value", "parser.py", 'self.expect_continue = expect == "100-continue"', 'self.expect_continue = bool(expect)', "R5"),
    M("continue-skips-dispatch", "channel.py", "                    self.send_continue()\n\n                if self.request.completed:", "                    self.send_continue()\n                    break\n\n                if self.request.completed:", "R6"),
    M("worker-continue-after-pop", "channel.py", "                    self.send_continue()\n\n                self.requests.pop(0)\n", "                    self.requests.pop(0)\n                    self.send_continue()\n                    return\n\n                self.requests.pop(0)\n", "R7"),
    M("worker-continue-closing-flush", "channel.py", "self.sent_continue = True\n            self._flush_exception(self._flush_some, do_close=False)", "self.sent_continue = True\n            self._flush_some()", "R7"),
    T("guard-helper-order", "channel.py", "                    self.request.expect_continue\n                    and self.request.headers_finished\n                    and not self.requests\n                    and not self.sent_continue", "                    not self.sent_continue\n                    and not self.requests\n                    and self.request.expect_continue\n                    and self.request.headers_finished"),
    T("payload-inline", "channel.py", '        outbuf_payload = b"HTTP/1.1 100 Continue\\r\\n\\r\\n"\n', '        outbuf_payload = b"HTTP/1.1 100 Continue" + b"\\r\\n" * 2\n'),
]
