"""C14 — worker pool: every task runs exactly once or is cancelled exactly once."""
from __future__ import annotations

import ast

from ..callgraph import get_callgraph
from ..cfg import cfg_of
from ..locks import accesses, get_locks
from ..model import AnalysisError, dotted, norm, walk_own
from .common import assigned_names, cmp_fact, find_calls, guards_of, key_of, mentions, resolve_locals, tail_is

EXPLANATION = (
    "Static monitor-discipline analysis of ThreadedTaskDispatcher: every access to queue/threads/stop_count/"
    "active_count (also through local aliases) is inside a region of the dispatcher's lock (the two Conditions alias "
    "it); tasks are serviced outside the lock and cancel() (called inside it) cannot re-enter it; each dequeued task "
    "flows to exactly one of service()/cancel() on every path and is never re-enqueued; producers append and both "
    "consumers popleft (FIFO); waits sit in re-testing loops, enqueue notifies, stop requests notify_all, a stopping "
    "worker updates the bookkeeping and notifies the exit condition in one region; resize arithmetic; shutdown drains. "
    "This is the discipline that implies exactly-once; exactly-once over executions is not itself decided."
)

LOCK = "ThreadedTaskDispatcher.lock"
FIELDS = ("queue", "threads", "stop_count", "active_count")


def _disp(ctx):
    return ctx.p.cls("task.ThreadedTaskDispatcher")


def _methods(ctx):
    return [f for f in ctx.p.functions.values() if f.qual.startswith("task.ThreadedTaskDispatcher.") and f.parent is None]


def rule_r1(ctx):
    rid = "C14.R1"
    ctx.r.rule(rid, "every access to queue, threads, stop_count, active_count (incl. through local aliases) holds the dispatcher lock; capturing the reference into a local is the one allowed unlocked idiom")
    p = ctx.p
    lk = get_locks(p)
    n = 0
    cg = get_callgraph(p)
    targets = {t[1].qual for (_, t) in cg.thread_targets if t[0] in ("bound", "func")}
    unused = []
    for f in _methods(ctx):
        if f.name == "__init__":
            continue
        if not cg.callers.get(f.qual) and f.qual not in targets:
            # nothing in the package calls (or reads, for a property) this member: it is not part of the server's
            # behaviour - e.g. an informational accessor for embedding code.  Listed in the evidence, not judged.
            unused.append(f.qual)
            continue
        idx = lk._stmt_index(f)
        # aliases: local = self.<field>
        aliases = {}
        for node in walk_own(f.node):
            if isinstance(node, ast.Assign) and isinstance(node.value, ast.Attribute) and dotted(node.value.value) == "self" and node.value.attr in FIELDS:
                for t in node.targets:
                    if isinstance(t, ast.Name):
                        aliases[t.id] = node.value.attr
        for node in walk_own(f.node):
            fld = None
            is_capture = False
            if isinstance(node, ast.Attribute) and dotted(node.value) == "self" and node.attr in FIELDS:
                fld = node.attr
                st = idx.get(id(node))
                if isinstance(st, ast.Assign) and st.value is node and all(isinstance(t, ast.Name) for t in st.targets):
                    is_capture = True
            elif isinstance(node, ast.Name) and node.id in aliases and isinstance(node.ctx, ast.Load):
                fld = aliases[node.id]
            if fld is None:
                continue
            st = idx.get(id(node))
            if st is None:
                continue
            n += 1
            held = lk.held_at_stmt(f, st)
            if LOCK in held:
                ctx.r.ok(rid, "%s.%s accessed under the lock" % (f.name, fld), f.loc(node))
            elif is_capture:
                ctx.r.ok(rid, "%s captures the reference self.%s (no element access)" % (f.name, fld), f.loc(node))
            else:
                ctx.r.violation(rid, key_of(f, st, "unlocked::" + fld), "%s touches %s outside the dispatcher lock: %s" % (f.qual, fld, norm(st).split("\n")[0][:70]), f.loc(node))
    ctx.r.note("dispatcher_members_without_caller_in_package", unused)
    ctx.r.floor(rid, n, 20, "accesses to the pool bookkeeping")


def rule_r2(ctx):
    rid = "C14.R2"
    ctx.r.rule(rid, "tasks are serviced outside the lock (it is not re-entrant and tasks call add_task); cancel() runs inside it and cannot reach add_task or the lock")
    p = ctx.p
    cg = get_callgraph(p)
    lk = get_locks(p)
    n = 0
    for f in _methods(ctx):
        g = cfg_of(f)
        for node, c in find_calls(g, lambda c: isinstance(c.func, ast.Attribute) and c.func.attr == "service" and isinstance(c.func.value, ast.Name)):
            n += 1
            st = lk.stmt_of_node(f, node)
            if LOCK in lk.held_at_stmt(f, st):
                ctx.r.violation(rid, key_of(f, None, "service-under-lock"), "task.service() is called while holding the dispatcher lock (self-deadlock when the task submits a follow-up)", f.loc(node.ast))
            else:
                ctx.r.ok(rid, "task.service() runs outside the lock", f.loc(node.ast))
        for node, c in find_calls(g, lambda c: isinstance(c.func, ast.Attribute) and c.func.attr == "cancel" and isinstance(c.func.value, ast.Name)):
            n += 1
            reach = cg.reachable(list(cg.callees(c)))
            bad = [q for q in reach if q.endswith(".add_task") or q.startswith("task.ThreadedTaskDispatcher.")]
            if bad:
                ctx.r.violation(rid, key_of(f, None, "cancel-reenters"), "task.cancel() (called under the dispatcher lock) can reach %s" % bad[0], f.loc(node.ast))
            else:
                ctx.r.ok(rid, "cancel() cannot re-enter the dispatcher", f.loc(node.ast))
    ctx.r.floor(rid, n, 2, "service/cancel call sites")


def _dequeues(ctx, f):
    g = cfg_of(f)
    out = []
    for n in g.nodes:
        if n.kind == "stmt" and isinstance(n.ast, ast.Assign) and isinstance(n.ast.value, ast.Call) and isinstance(n.ast.value.func, ast.Attribute) \
                and n.ast.value.func.attr in ("popleft", "pop") and len(n.ast.targets) == 1 and isinstance(n.ast.targets[0], ast.Name):
            recv = n.ast.value.func.value
            d = dotted(recv)
            if d == "self.queue" or (isinstance(recv, ast.Name) and _alias_of(f, recv.id) == "queue"):
                out.append((g, n, n.ast.targets[0].id, n.ast.value.func.attr, n.ast.value))
    return out


def _alias_of(f, name):
    for node in walk_own(f.node):
        if isinstance(node, ast.Assign) and isinstance(node.value, ast.Attribute) and dotted(node.value.value) == "self":
            for t in node.targets:
                if isinstance(t, ast.Name) and t.id == name:
                    return node.value.attr
    return None


def rule_r3(ctx):
    rid = "C14.R3"
    ctx.r.rule(rid, "each dequeued task flows to exactly one of service()/cancel() on every path and is never re-enqueued")
    p = ctx.p
    total = 0
    for f in _methods(ctx):
        for (g, n, var, meth, call) in _dequeues(ctx, f):
            total += 1
            uses = []
            for m in g.nodes:
                if m.kind == "stmt" and any(isinstance(c, ast.Call) and isinstance(c.func, ast.Attribute) and dotted(c.func.value) == var and c.func.attr in ("service", "cancel") for c in ast.walk(m.ast)):
                    uses.append(m)
            requeue = [m for m in g.nodes if m.kind == "stmt" and any(isinstance(c, ast.Call) and isinstance(c.func, ast.Attribute) and c.func.attr in ("append", "appendleft", "add_task")
                                                                     and any(dotted(a) == var for a in c.args) for c in ast.walk(m.ast))]
            if requeue:
                ctx.r.violation(rid, key_of(f, None, "requeue"), "a dequeued task is put back into a queue in %s" % f.qual, f.loc(requeue[0].ast))
            # every path from the dequeue to the next loop iteration / exit passes exactly one use
            # (a) at least one: no path from n back to n or to exit avoiding uses
            ends = [g.exit, n]
            miss = None
            for e in ends:
                pth = g.path(n, e, avoid=uses, follow_exc=False)
                if pth is not None:
                    miss = pth
            if miss is not None or not uses:
                ctx.r.violation(rid, key_of(f, None, "task-dropped"), "a dequeued task can be dropped without service()/cancel() in %s" % f.qual, f.loc(n.ast))
            else:
                ctx.r.ok(rid, "every path from the dequeue in %s reaches service()/cancel()" % f.name, f.loc(n.ast))
            # (b) at most one: from a use, no other use reachable without passing the dequeue again
            twice = None
            for u in uses:
                r = g.reach(u, avoid=[n], follow_exc=True)
                for v in uses:
                    if v.id in r and (v is not u or True) and v.id in r:
                        if v is u:
                            # self-reachable without re-dequeue => same task used twice in a loop
                            twice = (u, v)
                        else:
                            twice = (u, v)
            if twice:
                ctx.r.violation(rid, key_of(f, None, "task-used-twice"), "a dequeued task can be handed to both %s and %s" % (norm(twice[0].ast)[:30], norm(twice[1].ast)[:30]), f.loc(twice[1].ast))
            else:
                ctx.r.ok(rid, "no path uses one dequeued task twice in %s" % f.name, f.loc(n.ast))
    ctx.r.floor(rid, total, 2, "dequeue sites")


def rule_r4(ctx, rid="C14.R4"):
    ctx.r.rule(rid, "FIFO: producers append at one end, both consumers take from the other end of the same deque")
    p = ctx.p
    f = p.func("task.ThreadedTaskDispatcher.add_task")
    g = cfg_of(f)
    apps = find_calls(g, lambda c: isinstance(c.func, ast.Attribute) and c.func.attr in ("append", "appendleft", "insert", "extend") and mentions(c.func.value, "self.queue"))
    if not apps:
        raise AnalysisError("add_task does not enqueue")
    for n, c in apps:
        if c.func.attr == "append":
            ctx.r.ok(rid, "producer appends on the right", f.loc(n.ast))
        else:
            ctx.r.violation(rid, key_of(f, None, "producer-" + c.func.attr), "producer uses %s" % c.func.attr, f.loc(n.ast))
    # queue is a deque
    init = p.func("task.ThreadedTaskDispatcher.__init__")
    qinit = [n for n in ast.walk(init.node) if isinstance(n, ast.Assign) and any(dotted(t) == "self.queue" for t in n.targets)]
    if qinit and isinstance(qinit[0].value, ast.Call) and dotted(qinit[0].value.func) in ("deque", "collections.deque"):
        ctx.r.ok(rid, "queue is a deque", init.loc(qinit[0]))
    else:
        ctx.r.violation(rid, key_of(init, None, "queue-type"), "queue is not a collections.deque", init.loc())
    n = 0
    for f2 in _methods(ctx):
        for (g2, node, var, meth, call) in _dequeues(ctx, f2):
            n += 1
            if meth == "popleft" and not call.args:
                ctx.r.ok(rid, "%s takes from the left" % f2.name, f2.loc(node.ast))
            else:
                ctx.r.violation(rid, key_of(f2, None, "consumer-" + meth), "%s dequeues with %s (not the oldest task)" % (f2.qual, norm(call)), f2.loc(node.ast))
    ctx.r.floor(rid, n, 2, "consumers")


def rule_r5(ctx):
    rid = "C14.R5"
    ctx.r.rule(rid, "waits re-test in loops; a stopping worker decrements stop_count, removes itself and notifies the exit condition in one region; shutdown's wait loop re-tests `threads`")
    p = ctx.p
    lk = get_locks(p)
    h = p.func("task.ThreadedTaskDispatcher.handler_thread")
    g = cfg_of(h)
    # stop branch
    stops = [n for n in g.nodes if n.kind == "stmt" and isinstance(n.ast, ast.AugAssign) and dotted(n.ast.target) == "self.stop_count" and isinstance(n.ast.op, ast.Sub)]
    if not stops:
        ctx.r.violation(rid, key_of(h, None, "no-stop-accounting"), "a stopping worker does not decrement stop_count", h.loc())
    for s in stops:
        gs = guards_of(g, s)
        if not any(pol and isinstance(t, ast.Compare) and mentions(t, "self.stop_count") for (t, pol) in gs):
            ctx.r.violation(rid, key_of(h, None, "stop-unguarded"), "stop_count decremented without testing it is positive", h.loc(s.ast))
        disc = [n for n, c in find_calls(g, lambda c: dotted(c.func) in ("self.threads.discard", "self.threads.remove"))]
        noti = [n for n, c in find_calls(g, lambda c: dotted(c.func) in ("self.thread_exit_cv.notify", "self.thread_exit_cv.notify_all"))]
        brk = [n for n in g.nodes if n.kind == "stmt" and isinstance(n.ast, (ast.Break, ast.Return))]
        ok = disc and noti and all(LOCK in lk.held_at_stmt(h, x.ast) for x in disc + noti + [s])
        # after the stop accounting the worker leaves the loop without dequeuing
        deq = [n for (_, n, _, _, _) in _dequeues(ctx, h)]
        leaves = all(n.id not in g.reach(s, follow_exc=False) for n in deq)
        if ok and leaves:
            ctx.r.ok(rid, "stopping worker: stop_count--, threads.discard, exit notify under the lock, then leaves", h.loc(s.ast))
        else:
            ctx.r.violation(rid, key_of(h, None, "stop-bookkeeping"), "stopping worker does not update threads / notify the exit condition under the lock, or continues to dequeue", h.loc(s.ast))
    # the dequeue must not happen when a stop was requested and must see a non-empty queue:
    for (_, n, var, meth, call) in _dequeues(ctx, h):
        gs = guards_of(g, n)
        # wait loop exit condition: queue non-empty or stop_count != 0; then stop branch taken first
        # => at the dequeue: stop_count > 0 is False
        if any((not pol) and isinstance(t, ast.Compare) and mentions(t, "self.stop_count") for (t, pol) in gs):
            ctx.r.ok(rid, "dequeue only when no stop is pending (so the wait loop guarantees a non-empty queue)", h.loc(n.ast))
        else:
            ctx.r.violation(rid, key_of(h, None, "dequeue-ignores-stop"), "worker dequeues without having excluded a pending stop request: popleft on an empty queue / over-stopping", h.loc(n.ast))
    # the idle wait re-tests its predicate in a loop (a woken worker may find the queue already emptied by another)
    hw = [c for c in ast.walk(h.node) if isinstance(c, ast.Call) and dotted(c.func) == "self.queue_cv.wait"]
    if not hw:
        ctx.r.violation(rid, key_of(h, None, "no-idle-wait"), "handler_thread never waits on queue_cv", h.loc())
    for w in hw:
        loop = None
        for st in ast.walk(h.node):
            if isinstance(st, ast.While) and any(x is w for x in ast.walk(st)) and not isinstance(st.test, ast.Constant):
                loop = st
        if loop is not None and mentions(loop.test, "self.queue") and mentions(loop.test, "self.stop_count"):
            ctx.r.ok(rid, "idle wait sits in a while loop re-testing queue and stop_count", h.loc(w))
        else:
            ctx.r.violation(rid, key_of(h, None, "idle-wait-not-retested"),
                            "the idle wait is not inside a while loop that re-tests `queue` and `stop_count`: a woken worker whose task was taken by another pops from an empty queue and dies", h.loc(w))
    sh = p.func("task.ThreadedTaskDispatcher.shutdown")
    waits = [c for c in ast.walk(sh.node) if isinstance(c, ast.Call) and dotted(c.func) == "self.thread_exit_cv.wait"]
    for w in waits:
        loop = None
        for st in ast.walk(sh.node):
            if isinstance(st, ast.While) and any(x is w for x in ast.walk(st)):
                loop = st
        if loop is not None and (mentions(loop.test, "threads") or mentions(loop.test, "self.threads")):
            ctx.r.ok(rid, "shutdown waits in a loop re-testing the thread set", sh.loc(w))
        else:
            ctx.r.violation(rid, key_of(sh, None, "shutdown-wait-no-loop"), "shutdown's wait is not in a loop re-testing the thread set", sh.loc(w))


def rule_r6(ctx):
    rid = "C14.R6"
    ctx.r.rule(rid, "resize arithmetic: running = len(threads) - stop_count; stop_count grows by running - count; one thread started per missing worker")
    p = ctx.p
    f = p.func("task.ThreadedTaskDispatcher.set_thread_count")
    g = cfg_of(f)
    cnt = f.params[1]
    run = [n for n in g.nodes if n.kind == "stmt" and isinstance(n.ast, ast.Assign) and isinstance(n.ast.value, ast.BinOp) and isinstance(n.ast.value.op, ast.Sub)
           and "len(" in norm(n.ast.value.left) and "stop_count" in norm(n.ast.value.right)]
    if not run:
        ctx.r.violation(rid, key_of(f, None, "running-formula"), "running is not computed as len(threads) - stop_count", f.loc())
        return
    rv = run[0].ast.targets[0].id
    ctx.r.ok(rid, "%s = len(threads) - stop_count" % rv, f.loc(run[0].ast))
    inc = [n for n in g.nodes if n.kind == "stmt" and isinstance(n.ast, ast.AugAssign) and dotted(n.ast.target) == "self.stop_count"]
    over = [n for n in g.nodes if n.kind == "stmt" and isinstance(n.ast, ast.Assign) and any(dotted(t) == "self.stop_count" for t in n.ast.targets)]
    for n in over:
        ctx.r.violation(rid, key_of(f, None, "stop-count-overwritten"), "stop_count is overwritten (%s): stop requests still pending from an earlier resize are forgotten (running is already net of them)" % norm(n.ast), f.loc(n.ast))
    if not inc and not over:
        ctx.r.violation(rid, key_of(f, None, "no-stop-request"), "set_thread_count never raises stop_count: the pool cannot shrink", f.loc())
    for n in inc:
        v = n.ast.value
        ok = isinstance(n.ast.op, ast.Add) and isinstance(v, ast.BinOp) and isinstance(v.op, ast.Sub) and dotted(v.left) == rv and dotted(v.right) == cnt
        gd = any(pol and isinstance(t, ast.Compare) and norm(t).replace(" ", "") in ("%s>%s" % (rv, cnt), "%s<%s" % (cnt, rv)) for (t, pol) in guards_of(g, n))
        if ok and gd:
            ctx.r.ok(rid, "stop_count += running - count under running > count", f.loc(n.ast))
        else:
            ctx.r.violation(rid, key_of(f, None, "stop-arith"), "stop_count adjusted by %s (guarded: %s), expected running - count under running > count" % (norm(n.ast), gd), f.loc(n.ast))
    # start loop: while running < count: ... running += 1 ; start_new_thread once
    loops = [st for st in ast.walk(f.node) if isinstance(st, ast.While) and norm(st.test).replace(" ", "") in ("%s<%s" % (rv, cnt), "%s>%s" % (cnt, rv))]
    if not loops:
        ctx.r.violation(rid, key_of(f, None, "start-loop"), "no loop starting threads while running < count", f.loc())
    for lp in loops:
        incs = [x for x in lp.body if isinstance(x, ast.AugAssign) and dotted(x.target) == rv and isinstance(x.op, ast.Add) and isinstance(x.value, ast.Constant) and x.value.value == 1]
        starts = [x for x in lp.body if isinstance(x, ast.Expr) and isinstance(x.value, ast.Call) and dotted(x.value.func) == "self.start_new_thread"]
        adds = [x for x in lp.body if isinstance(x, ast.Expr) and isinstance(x.value, ast.Call) and isinstance(x.value.func, ast.Attribute) and x.value.func.attr == "add"]
        if len(incs) == 1 and len(starts) == 1 and len(adds) == 1:
            ctx.r.ok(rid, "each iteration registers and starts exactly one worker and counts it", f.loc(lp))
            # the number registered is free: the add is reached only through the false outcome of `<no> in threads`
            an = [x for x in g.nodes if x.kind == "stmt" and x.ast is adds[0]]
            no = norm(adds[0].value.args[0]) if adds[0].value.args else None
            cont = norm(adds[0].value.func.value)
            nos = {no}
            if adds[0].value.args and isinstance(adds[0].value.args[0], ast.Name):
                src = resolve_locals(f, adds[0].value.args[0])  # new_no = candidate: the tested local, copied
                if isinstance(src, ast.Name):
                    nos.add(src.id)
            free = an and no and any((cmp_fact(t, pol) or ("",))[0] == "in" and cmp_fact(t, pol)[1] in nos and cmp_fact(t, pol)[3] is False and tail_is(cmp_fact(t, pol)[2], cont.split(".")[-1]) for (t, pol) in guards_of(g, an[0]))
            if not free and adds[0].value.args and isinstance(adds[0].value.args[0], ast.Name):
                # thread_no = next(g) with g = (n for n in <numbers> if n not in threads): free by construction
                src = resolve_locals(f, adds[0].value.args[0])
                if isinstance(src, ast.Call) and dotted(src.func) == "next" and src.args:
                    gsrc = resolve_locals(f, src.args[0]) if isinstance(src.args[0], ast.Name) else src.args[0]
                    if isinstance(gsrc, ast.GeneratorExp) and len(gsrc.generators) == 1 and isinstance(gsrc.elt, ast.Name) and isinstance(gsrc.generators[0].target, ast.Name) \
                            and gsrc.elt.id == gsrc.generators[0].target.id:
                        for c0 in gsrc.generators[0].ifs:
                            cf = cmp_fact(c0, True)
                            if cf and cf[0] == "in" and cf[1] == gsrc.elt.id and cf[3] is False and tail_is(cf[2], cont.split(".")[-1]):
                                free = True
            any_member_test = any(isinstance(x, ast.Compare) and any(isinstance(o, (ast.In, ast.NotIn)) for o in x.ops) and tail_is(x.comparators[0], cont.split(".")[-1]) for x in ast.walk(f.node))
            if free:
                ctx.r.ok(rid, "a new worker gets a number that is not in the set", f.loc(adds[0]))
            elif not any_member_test:
                # no membership test on the set at all: the free number is found some other way (a generator, a counter
                # object) that this rule does not read
                raise AnalysisError("set_thread_count does not pick the new worker's number by a membership test on the set: not decided")
            else:
                ctx.r.violation(rid, key_of(f, None, "worker-number-not-free"), "the number registered for a new worker (%s) is not established to be free (`while %s in %s` skipped or weakened): two workers share one entry, the set under-counts and resizing / shutdown never converge" % (no, no, cont), f.loc(adds[0]))
        else:
            ctx.r.violation(rid, key_of(f, None, "start-loop-body"), "start loop body does not register/start/count exactly one worker per iteration", f.loc(lp))


def rule_r7(ctx):
    rid = "C14.R7"
    ctx.r.rule(rid, "shutdown cancels under the lock after the wait, drains the queue completely and wakes everyone")
    p = ctx.p
    lk = get_locks(p)
    f = p.func("task.ThreadedTaskDispatcher.shutdown")
    g = cfg_of(f)
    cancels = find_calls(g, lambda c: isinstance(c.func, ast.Attribute) and c.func.attr == "cancel")
    if not cancels:
        ctx.r.violation(rid, key_of(f, None, "no-cancel"), "shutdown never cancels pending tasks", f.loc())
        return
    for n, c in cancels:
        loop = None
        for st in ast.walk(f.node):
            if isinstance(st, ast.While) and any(x is c for x in ast.walk(st)):
                loop = st
        drains = loop is not None and (dotted(loop.test) in ("queue", "self.queue") or "len(" in norm(loop.test))
        under = LOCK in lk.held_at_stmt(f, lk.stmt_of_node(f, n))
        gd = any(pol and dotted(t) == f.params[1] for (t, pol) in guards_of(g, n)) if len(f.params) > 1 else False
        if drains and under and gd:
            ctx.r.ok(rid, "cancel loop drains the queue under the lock when cancel_pending", f.loc(n.ast))
        else:
            ctx.r.violation(rid, key_of(f, None, "cancel-loop"), "cancel loop: drains=%s under_lock=%s guarded_by_cancel_pending=%s" % (drains, under, gd), f.loc(n.ast))
    stc = find_calls(g, lambda c: dotted(c.func) == "self.set_thread_count")
    if stc and isinstance(stc[0][1].args[0], ast.Constant) and stc[0][1].args[0].value == 0:
        ctx.r.ok(rid, "shutdown first asks every worker to stop", f.loc(stc[0][0].ast))
    else:
        ctx.r.violation(rid, key_of(f, None, "no-stop-all"), "shutdown does not call set_thread_count(0)", f.loc())


def rule_r8(ctx):
    """Shared with C05.R7: enqueue notifies in the lock region, idle workers re-test in a loop, a stop request wakes every idle
    worker (notify_all) - otherwise a stop request is consumed by the wrong wake-up and a queued task is never run."""
    from . import c05
    c05.rule_r7(ctx, rid="C14.R8")


def rule_r9(ctx):
    """Shared with C09.R3: 'none is lost' - the worker loop survives every exception of a task (BaseException), otherwise
    the tasks queued behind it are neither run nor cancelled and the pool never converges."""
    from . import c09
    c09.rule_r3(ctx, rid="C14.R9")


def rule_r10(ctx, rid="C14.R10"):
    ctx.r.rule(rid, "a failing task cannot take its worker down: the handler of the worker loop that contains a task's exception evaluates nothing of the task itself - the task is handed to the logging call as an argument (formatted lazily, inside logging's own containment), never formatted with an f-string / % / str() / repr() in the handler")
    p = ctx.p
    f = p.func("task.ThreadedTaskDispatcher.handler_thread")
    hs = [h for t in ast.walk(f.node) if isinstance(t, ast.Try) and any(isinstance(c, ast.Call) and isinstance(c.func, ast.Attribute) and c.func.attr == "service" for b in t.body for c in ast.walk(b)) for h in t.handlers]
    ctx.r.floor(rid, len(hs), 1, "handlers around task.service() in the worker loop")
    for h in hs:
        bad = None
        for st in h.body:
            for x in ast.walk(st):
                eager = isinstance(x, ast.JoinedStr) or (isinstance(x, ast.BinOp) and isinstance(x.op, ast.Mod) and isinstance(x.left, ast.Constant) and isinstance(x.left.value, str)) \
                    or (isinstance(x, ast.Call) and dotted(x.func) in ("str", "repr", "format")) or (isinstance(x, ast.Call) and isinstance(x.func, ast.Attribute) and x.func.attr == "format")
                if eager and any(isinstance(y, ast.Name) and y.id == "task" for y in ast.walk(x)):
                    bad = x
        if bad is None:
            ctx.r.ok(rid, "the handler formats nothing of the task eagerly", f.loc(h))
        else:
            ctx.r.violation(rid, key_of(f, None, "eager-task-format"), "the worker loop's handler evaluates `%s` itself: a task whose __repr__ / __str__ raises makes the exception escape the loop, the worker dies without being accounted for and the tasks queued behind it are never run" % norm(bad)[:60], f.loc(bad))


RULES = [rule_r1, rule_r2, rule_r3, rule_r4, rule_r5, rule_r6, rule_r7, rule_r8, rule_r9, rule_r10]

from ..selftest import M, T, V  # noqa: E402

selftest = [
    M("service-under-lock", "task.py", "                task = self.queue.popleft()\n            try:\n                task.service()\n            except BaseException:\n                self.logger.exception(\"Exception when servicing %r\", task)", "                task = self.queue.popleft()\n                try:\n                    task.service()\n                except BaseException:\n                    self.logger.exception(\"Exception when servicing %r\", task)", "R2"),
    M("read-queue-before-lock", "task.py", "    def add_task(self, task):\n        with self.lock:\n            self.queue.append(task)", "    def add_task(self, task):\n        self.queue.append(task)\n        with self.lock:", "R1"),
    M("lifo", "task.py", "                task = self.queue.popleft()\n            try:", "                task = self.queue.pop()\n            try:", "R4"),
    M("cancel-and-service", "task.py", "                    task = queue.popleft()\n                    task.cancel()", "                    task = queue.popleft()\n                    task.cancel()\n                    task.service()", "R3"),
    M("cancel-peek", "task.py", "                    task = queue.popleft()\n                    task.cancel()", "                    task = queue.popleft()\n                    if len(queue) % 2:\n                        task.cancel()", "R3"),
    M("stop-no-exit-notify", "task.py", "                    self.threads.discard(thread_no)\n                    self.thread_exit_cv.notify()\n", "                    self.threads.discard(thread_no)\n", "R5"),
    M("stop-count-off-by-one", "task.py", "                self.stop_count += running - count\n", "                self.stop_count += running - count + 1\n", "R6"),
    M("running-ignores-stopping", "task.py", "            running = len(threads) - self.stop_count\n", "            running = len(threads)\n", "R6"),
    M("shutdown-cancel-one", "task.py", "                while queue:\n                    task = queue.popleft()\n                    task.cancel()", "                if queue:\n                    task = queue.popleft()\n                    task.cancel()", "R7"),
    M("shutdown-cancel-unlocked", "task.py", "            if cancel_pending:\n                # Cancel remaining tasks.\n                queue = self.queue\n                if len(queue) > 0:\n                    self.logger.warning(\"Canceling %d pending task(s)\", len(queue))\n                while queue:\n                    task = queue.popleft()\n                    task.cancel()\n                self.queue_cv.notify_all()\n                return True\n        return False", "        if cancel_pending:\n            queue = self.queue\n            while queue:\n                task = queue.popleft()\n                task.cancel()\n            return True\n        return False", None),
    M("dequeue-when-stopping", "task.py", "                if self.stop_count > 0:\n                    self.active_count -= 1\n                    self.stop_count -= 1\n                    self.threads.discard(thread_no)\n                    self.thread_exit_cv.notify()\n                    break\n\n                task = self.queue.popleft()", "                task = self.queue.popleft()\n                if self.stop_count > 0:\n                    self.active_count -= 1\n                    self.stop_count -= 1\n                    self.threads.discard(thread_no)\n                    self.thread_exit_cv.notify()\n                    break\n", None),
    M("worker-drops-task", "task.py", "            try:\n                task.service()\n            except BaseException:", "            try:\n                if thread_no % 2:\n                    task.service()\n            except BaseException:", "R3"),
    M("stop-count-assigned", "task.py", "                self.stop_count += running - count\n", "                self.stop_count = running - count\n", "R6"),
    M("idle-wait-if", "task.py", "                while not self.queue and self.stop_count == 0:", "                if not self.queue and self.stop_count == 0:", "R5"),
    T("with-queue_cv", "task.py", "    def add_task(self, task):\n        with self.lock:", "    def add_task(self, task):\n        with self.queue_cv:"),
    T("popleft-via-alias", "task.py", "                task = self.queue.popleft()\n            try:", "                queue = self.queue\n                task = queue.popleft()\n            try:"),
    T("count-gt-swapped", "task.py", "            if running > count:", "            if count < running:"),
]
