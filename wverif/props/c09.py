"""C09 — application failures are contained; the iterable is closed exactly once."""
from __future__ import annotations

import ast

from ..callgraph import get_callgraph
from ..cfg import cfg_of, handler_names
from ..excflow import enclosing_handlers, handler_behaviour, handler_catches, route
from ..model import AnalysisError, dotted, norm
from .common import find_calls, guards_of, key_of, mentions, mentions_attr

EXPLANATION = (
    "Path and exception-ladder analysis. (R1) In WSGITask.execute a product exploration of the CFG (with exception "
    "edges) and the hand-over flag decides that on every path from the creation of the application iterable to a "
    "function exit exactly one of {close() call, absence of a close attribute, completed hand-over to the channel} "
    "occurs. (R2) Every buffer removed from the output list flows to close(); teardown closes the rest; the file "
    "buffer's close() closes the wrapped file. (R3) The worker loop's service() call sits in a catch-all that neither "
    "re-raises nor leaves the loop. (R4) For the exception class groups {Exception, OSError, BaseException-only} raised "
    "at the application call the handler chain up the resolved call graph must end in the handler that takes the "
    "500-or-close decision. (R5) Every traceback.format_* value is control-dependent on expose_tracebacks. (R6) The "
    "decision itself: head not yet written -> error task, else close; ClientDisconnected -> close. Wire bytes and "
    "dynamic close counts for aliased iterables are not decided."
)


def rule_r1(ctx, rid="C09.R1"):
    ctx.r.rule(rid, "close exactly once: on every path (normal and exceptional) from the creation of app_iter to an exit exactly one of close() / no close attribute / completed hand-over occurs")
    p = ctx.p
    f = p.func("task.WSGITask.execute")
    g = cfg_of(f)
    # definition of the iterable: assignment from the application call
    defs = [n for n in g.nodes if n.kind == "stmt" and isinstance(n.ast, ast.Assign) and isinstance(n.ast.value, ast.Call)
            and (dotted(n.ast.value.func) or "").endswith(".application") and isinstance(n.ast.targets[0], ast.Name)]
    if len(defs) != 1:
        raise AnalysisError("cannot find the application call in WSGITask.execute")
    d = defs[0]
    it = d.ast.targets[0].id
    closes = {n.id for n in g.nodes if n.kind == "stmt" and any(isinstance(c, ast.Call) and isinstance(c.func, ast.Attribute) and c.func.attr == "close" and dotted(c.func.value) == it for c in ast.walk(n.ast))}
    handover = {n.id for n in g.nodes if n.kind == "stmt" and any(isinstance(c, ast.Call) and (dotted(c.func) or "").endswith("write_soon") and c.args and dotted(c.args[0]) == it for c in ast.walk(n.ast))}
    if not closes:
        ctx.r.violation(rid, key_of(f, None, "never-closed"), "execute() never calls %s.close()" % it, f.loc())
        return
    # flag variables: locals assigned boolean constants and tested by name
    flags = set()
    for n in g.nodes:
        if n.kind == "stmt" and isinstance(n.ast, ast.Assign) and isinstance(n.ast.value, ast.Constant) and isinstance(n.ast.value.value, bool) and isinstance(n.ast.targets[0], ast.Name):
            flags.add(n.ast.targets[0].id)
    # explore (node, flag valuation, count) — count saturates at 2
    start_edges = [(s, l) for (s, l) in d.succ if l != "exc"]
    seen = set()
    stack = [(s, frozenset(), 0, (d,)) for (s, l) in start_edges]
    bad = {}
    n_paths = 0
    while stack:
        node, fv, cnt, trail = stack.pop()
        key = (node.id, fv, cnt)
        if key in seen:
            continue
        seen.add(key)
        fvd = dict(fv)
        if node is g.exit or node is g.raise_exit:
            n_paths += 1
            if cnt != 1:
                kind = "never closed" if cnt == 0 else "closed (or handed over and closed) twice"
                exitk = "normal return" if node is g.exit else "exception"
                bad.setdefault((kind, exitk), trail)
            continue
        ncnt_normal = cnt
        ncnt_exc = cnt
        if node.id in closes:
            ncnt_normal = min(2, cnt + 1)
            ncnt_exc = min(2, cnt + 1)  # close() was called even if it raised
        if node.id in handover:
            ncnt_normal = min(2, cnt + 1)  # the channel owns it once write_soon returned
        if node.kind == "stmt" and isinstance(node.ast, ast.Assign) and isinstance(node.ast.targets[0], ast.Name) and node.ast.targets[0].id in flags \
                and isinstance(node.ast.value, ast.Constant):
            fvd[node.ast.targets[0].id] = bool(node.ast.value.value)
        nfv = frozenset(fvd.items())
        for (s, l) in node.succ:
            c2 = ncnt_exc if l == "exc" else ncnt_normal
            f2 = nfv if l != "exc" else (nfv if node.kind != "stmt" or not isinstance(node.ast, ast.Assign) else fv)
            if s.kind == "branch":
                t = s.ast
                if isinstance(t, ast.Name) and t.id in fvd and fvd[t.id] != s.polarity:
                    continue
                if isinstance(t, ast.Call) and dotted(t.func) == "hasattr" and len(t.args) == 2 and dotted(t.args[0]) == it \
                        and isinstance(t.args[1], ast.Constant) and t.args[1].value == "close" and not s.polarity:
                    c2 = min(2, c2 + 1)  # nothing to close
            stack.append((s, f2, c2, trail + (s,) if len(trail) < 60 else trail))
    if bad:
        for (kind, exitk), trail in sorted(bad.items()):
            ctx.r.violation(rid, key_of(f, None, "close-count::%s::%s" % (kind.split(" ")[0], exitk.split(" ")[0])),
                            "the application iterable is %s on a path ending in %s: %s" % (kind, exitk, g.describe_path(list(trail), 16)), f.loc(d.ast))
    else:
        ctx.r.ok(rid, "all %d explored (node, flag, count) exits close/hand over exactly once" % n_paths, f.loc(d.ast))
    ctx.r.note("c09_r1_states", len(seen))
    # the flag flip directly follows the hand-over
    for h in handover:
        hn = g.nodes[h]
        nxt = [s for (s, l) in hn.succ if l != "exc"]
        # (which constant clears it depends on how the flag is phrased - "may close" or "handed over"; the path exploration
        # above decides whether the flip has the right sense)
        ok = nxt and nxt[0].kind == "stmt" and isinstance(nxt[0].ast, ast.Assign) and isinstance(nxt[0].ast.value, ast.Constant) and isinstance(nxt[0].ast.value.value, bool) \
            and isinstance(nxt[0].ast.targets[0], ast.Name) and nxt[0].ast.targets[0].id in flags
        if ok:
            ctx.r.ok(rid, "ownership flag cleared immediately after the hand-over", f.loc(hn.ast))
        else:
            ctx.r.violation(rid, key_of(f, None, "flag-not-adjacent"), "the statement after the hand-over is not the clearing of the ownership flag", f.loc(hn.ast))


def rule_r2(ctx):
    rid = "C09.R2"
    ctx.r.rule(rid, "the channel closes what it was handed: every buffer popped from outbufs flows to close(); teardown closes the rest; FileBasedBuffer.close closes the wrapped file")
    p = ctx.p
    f = p.func("channel.HTTPChannel._flush_some")
    g = cfg_of(f)
    pops = [n for n in g.nodes if n.kind == "stmt" and any(isinstance(c, ast.Call) and dotted(c.func) == "self.outbufs.pop" for c in ast.walk(n.ast))]
    for n in pops:
        if isinstance(n.ast, ast.Assign) and isinstance(n.ast.targets[0], ast.Name):
            v = n.ast.targets[0].id
            cl = [m for m in g.nodes if m.kind == "stmt" and any(isinstance(c, ast.Call) and isinstance(c.func, ast.Attribute) and c.func.attr == "close" and dotted(c.func.value) == v for c in ast.walk(m.ast))]
            if cl and g.path(n, g.exit, avoid=cl, follow_exc=False) is None:
                ctx.r.ok(rid, "popped buffer is closed on every normal path", f.loc(n.ast))
            else:
                ctx.r.violation(rid, key_of(f, None, "popped-not-closed"), "a drained output buffer is dropped without close(): a wsgi.file_wrapper file leaks", f.loc(n.ast))
        else:
            ctx.r.violation(rid, key_of(f, None, "popped-discarded"), "a drained output buffer is popped and discarded without close()", f.loc(n.ast))
    ctx.r.floor(rid, len(pops), 1, "buffer removals in _flush_some")
    from .c13 import rule_r6
    rule_r6(ctx, rid=rid)
    fb = p.func("buffers.FileBasedBuffer.close")
    if any(isinstance(c, ast.Call) and dotted(c.func) == "self.file.close" for c in ast.walk(fb.node)):
        ctx.r.ok(rid, "FileBasedBuffer.close closes the wrapped file", fb.loc())
    else:
        ctx.r.violation(rid, key_of(fb, None, "file-not-closed"), "FileBasedBuffer.close does not close the wrapped file", fb.loc())
    ro = p.cls("buffers.ReadOnlyFileBasedBuffer")
    if ro.lookup("close") is fb:
        ctx.r.ok(rid, "ReadOnlyFileBasedBuffer inherits that close()", "src/waitress/buffers.py")
    else:
        c = ro.lookup("close")
        if c is not None and any(isinstance(x, ast.Call) and (dotted(x.func) or "").endswith("file.close") for x in ast.walk(c.node)):
            ctx.r.ok(rid, "ReadOnlyFileBasedBuffer.close closes the file", c.loc())
        else:
            ctx.r.violation(rid, "readonly-close", "ReadOnlyFileBasedBuffer.close does not close the wrapped file", "src/waitress/buffers.py")


def rule_r3(ctx, rid="C09.R3"):
    ctx.r.rule(rid, "workers survive: the service() call in the worker loop is inside a catch-all (BaseException) that neither re-raises nor leaves the loop")
    p = ctx.p
    f = p.func("task.ThreadedTaskDispatcher.handler_thread")
    g = cfg_of(f)
    calls = find_calls(g, lambda c: isinstance(c.func, ast.Attribute) and c.func.attr == "service")
    if not calls:
        raise AnalysisError("handler_thread no longer calls service()")
    for n, c in calls:
        hs = enclosing_handlers(g, n)
        ok = False
        if hs:
            for h in hs[0]:
                names = handler_names(h.ast)
                if names is None or "BaseException" in names:
                    leaves = any(isinstance(x, (ast.Break, ast.Return, ast.Raise)) for x in ast.walk(h.ast))
                    if handler_behaviour(g, h) == "swallow" and not leaves:
                        ok = True
        if ok:
            ctx.r.ok(rid, "task.service() is under `except BaseException` that stays in the loop", f.loc(n.ast))
        else:
            ctx.r.violation(rid, key_of(f, None, "worker-dies"), "an exception from task.service() can terminate the worker thread (handler missing, narrower than BaseException, or leaving the loop)", f.loc(n.ast))


def _decision_handler(ctx):
    """The handler in HTTPChannel.service that takes the 500-or-close decision: the
    generic `except Exception` of the try statement that runs the task."""
    from ..excflow import resolve_handler_classes
    p = ctx.p
    cg = get_callgraph(p)
    f = p.func("channel.HTTPChannel.service")
    for t in ast.walk(f.node):
        if isinstance(t, ast.Try) and any(isinstance(c, ast.Call) and any(x.qual == "task.Task.service" for x in cg.callees(c)) for b in t.body for c in ast.walk(b)):
            for h in t.handlers:
                cls = resolve_handler_classes(p, f, h)
                if cls is None or "Exception" in cls or "BaseException" in cls:
                    return f, h
    return f, None


def rule_r4(ctx):
    rid = "C09.R4"
    ctx.r.rule(rid, "exception routing: Exception / OSError / BaseException-only raised by the application end in the handler that takes the 500-or-close decision")
    p = ctx.p
    f = p.func("task.WSGITask.execute")
    g = cfg_of(f)
    sf, dh = _decision_handler(ctx)
    if dh is None:
        raise AnalysisError("cannot find the 500-or-close handler in HTTPChannel.service")
    app = [n for n in g.nodes if n.kind == "stmt" and isinstance(n.ast, ast.Assign) and isinstance(n.ast.value, ast.Call) and (dotted(n.ast.value.func) or "").endswith(".application")]
    sites = [(app[0], "the application call")] if app else []
    its = [n for n in g.nodes if n.kind == "iter" and dotted(n.ast.iter) == "app_iter"]
    sites += [(i, "iteration of app_iter") for i in its]
    ctx.r.floor(rid, len(sites), 2, "application entry points in execute()")
    base = (("Exception", "Exception"), ("OSError", "OSError (e.g. FileNotFoundError raised by the application)"), ("SystemExit", "BaseException-only (SystemExit/KeyboardInterrupt/GeneratorExit)"))
    # every builtin exception class some handler of the package names is probed as well: a handler for a narrower class
    # (say ConnectionError) between the application and the decision handler diverts exactly that class
    import builtins
    from ..excflow import ExcClass, resolve_handler_classes
    named = set()
    for fx in p.functions.values():
        for h in ast.walk(fx.node):
            if isinstance(h, ast.ExceptHandler) and h.type is not None:
                for nm in resolve_handler_classes(p, fx, h) or ():
                    bc = getattr(builtins, nm, None) if "." not in nm else None
                    if isinstance(bc, type) and issubclass(bc, BaseException):
                        named.add(nm)
    derived = tuple((nm, "%s raised by the application" % nm) for nm in sorted(named - {b for b, _ in base} - {"BaseException"}))
    for (node, what) in sites:
        for exc, label in base + derived:
            terms = route(p, f, node, exc)
            covered = [b for b, _ in base if b != exc and b in ExcClass(p, exc).ancestors()] if (exc, label) in derived else []
            if (exc, label) in derived and "Exception" not in ExcClass(p, exc).ancestors():
                covered.append("SystemExit")  # the representative of the BaseException-only classes
            for t in terms:
                if covered and t.kind == "handler" and any(handler_catches(p, t.func, t.hnode.ast, b) for b in covered):
                    continue  # the same handler already takes the base class: judged under that probe
                if covered and t.kind == "escape":
                    continue
                if t.kind == "passthrough":
                    continue
                if t.kind == "escape":
                    ctx.r.violation(rid, "app-exc-escapes::%s::%s" % (exc, t.func.qual), "%s raised at %s escapes through %s" % (label, what, t.func.qual), t.func.loc(), {"chain": t.chain})
                    continue
                h = t.hnode.ast
                if getattr(h, "_orig", h) is getattr(dh, "_orig", dh):
                    ctx.r.ok(rid, "%s at %s -> the 500-or-close handler" % (exc, what), t.func.loc(h))
                    continue
                beh = getattr(t, "behaviour", "swallow")
                hname = norm(h.type) if h.type is not None else "<bare>"
                if t.func.qual == "channel.HTTPChannel.service" and (resolve_handler_classes(p, t.func, h) or set()) <= {"ClientDisconnected", "channel.ClientDisconnected", "waitress.channel.ClientDisconnected", "utilities.ClientDisconnected"}:
                    ctx.r.ok(rid, "%s at %s -> ClientDisconnected handler (closes)" % (exc, what), t.func.loc(h))
                    continue
                ctx.r.violation(rid, "app-exc-misrouted::%s::%s::%s::%s" % (exc, t.func.qual, hname, beh),
                                "%s raised at %s is %s by `except %s` in %s before reaching the handler that decides 500-or-close: %s"
                                % (label, what, "swallowed (conditionally)" if beh == "reraise-sometimes" else "swallowed", hname, t.func.qual,
                                   "no 500 response" if "Task.service" in t.func.qual else "no response and no close decision: the connection hangs"),
                                t.func.loc(h), {"chain": t.chain})


def rule_r5(ctx):
    rid = "C09.R5"
    ctx.r.rule(rid, "tracebacks: every traceback.format_* value in the package is control-dependent on adj.expose_tracebacks")
    p = ctx.p
    n = 0
    for f in p.functions.values():
        if f.module.name in ("runner", "wasyncore"):
            continue  # CLI diagnostics / log-only compact_traceback: never part of a response
        g = cfg_of(f)
        for node, c in find_calls(g, lambda c: (dotted(c.func) or "").startswith("traceback.format") or (dotted(c.func) or "").startswith("traceback.print")):
            n += 1
            if any(pol and mentions_attr(t, "expose_tracebacks") for (t, pol) in guards_of(g, node)):
                ctx.r.ok(rid, "%s only under expose_tracebacks" % norm(c)[:40], f.loc(node.ast))
            else:
                ctx.r.violation(rid, key_of(f, None, "traceback-unguarded"), "%s is produced regardless of expose_tracebacks" % norm(c)[:40], f.loc(node.ast))
    ctx.r.floor(rid, n, 1, "traceback formatting sites")
    # the non-exposing branch uses a constant body
    sf, dh = _decision_handler(ctx)
    if dh is not None:
        g = cfg_of(sf)
        bodies = [x for x in ast.walk(dh) if isinstance(x, ast.Assign) and any(isinstance(t, ast.Name) and t.id == "body" for t in x.targets)]
        other = [b for b in bodies if not isinstance(b.value, ast.Call)]
        if other and all(isinstance(b.value, ast.Constant) for b in other):
            ctx.r.ok(rid, "without expose_tracebacks the 500 body is a constant", sf.loc(other[0]))
        elif bodies:
            ctx.r.violation(rid, key_of(sf, None, "500-body"), "the 500 body without expose_tracebacks is not a constant: %s" % [norm(b.value)[:40] for b in other], sf.loc(bodies[0]))


def rule_r6(ctx):
    rid = "C09.R6"
    ctx.r.rule(rid, "the decision: head not yet written -> error task (500), else close; ClientDisconnected -> close; the error task's own ClientDisconnected is handled")
    p = ctx.p
    f, dh = _decision_handler(ctx)
    g = cfg_of(f)
    ets = [n for n, c in find_calls(g, lambda c: dotted(c.func) == "self.error_task_class") if any(x is c for x in ast.walk(dh))]
    for n in ets:
        if any((not pol) and mentions_attr(t, "wrote_header") for (t, pol) in guards_of(g, n)):
            ctx.r.ok(rid, "500 only when no output has begun", f.loc(n.ast))
        else:
            ctx.r.violation(rid, key_of(f, None, "500-after-output"), "a 500 response is produced although the head was already written", f.loc(n.ast))
    if not ets:
        ctx.r.violation(rid, key_of(f, None, "no-500"), "the generic handler never builds the 500 response", f.loc(dh))
    closes = [n for n in g.nodes if n.kind == "stmt" and isinstance(n.ast, ast.Assign) and any(dotted(t) == "task.close_on_finish" for t in n.ast.targets) and any(x is n.ast for x in ast.walk(dh))]
    wrote = [n for n in closes if any(pol and mentions_attr(t, "wrote_header") for (t, pol) in guards_of(g, n))]
    if wrote:
        ctx.r.ok(rid, "after output began the connection is closed without further bytes", f.loc(wrote[0].ast))
    else:
        ctx.r.violation(rid, key_of(f, None, "no-close-after-output"), "an application failure after output began does not close the connection", f.loc(dh))
    # InternalServerError carries the body
    cg = get_callgraph(p)
    scope = [dh]
    seen = set()
    for c in ast.walk(dh):
        # private helpers of the channel called from the handler belong to it
        if isinstance(c, ast.Call):
            for callee in cg.callees(c):
                if callee.qual.startswith("channel.") and callee.qual not in seen:
                    seen.add(callee.qual)
                    scope.append(callee.node)
    ise = [c for sc in scope for c in ast.walk(sc) if isinstance(c, ast.Call) and dotted(c.func) == "InternalServerError"]
    if ise:
        ctx.r.ok(rid, "the synthetic request carries InternalServerError", f.loc(ise[0]))
    else:
        ctx.r.violation(rid, key_of(f, None, "no-ise"), "the generic handler does not build an InternalServerError", f.loc(dh))
    # ClientDisconnected handlers set close
    for h in ast.walk(f.node):
        if isinstance(h, ast.ExceptHandler) and h.type is not None and "ClientDisconnected" in norm(h.type):
            if any(isinstance(x, ast.Assign) and any(dotted(t) == "task.close_on_finish" for t in x.targets) for x in ast.walk(h)):
                ctx.r.ok(rid, "ClientDisconnected -> close_on_finish", f.loc(h))
            else:
                ctx.r.violation(rid, key_of(f, None, "disconnect-not-closing"), "a ClientDisconnected handler does not close the connection", f.loc(h))
    # the inner error task call is protected
    inner = [n for n, c in find_calls(g, lambda c: dotted(c.func) == "task.service") if any(x is c for x in ast.walk(dh))]
    for n in inner:
        hs = enclosing_handlers(g, n)
        ok = hs and any(handler_catches(p, f, h.ast, "channel.ClientDisconnected") for h in hs[0])
        if ok:
            ctx.r.ok(rid, "the error task's own ClientDisconnected is handled", f.loc(n.ast))
        else:
            ctx.r.violation(rid, key_of(f, None, "error-task-unprotected"), "ClientDisconnected raised while sending the 500 escapes service()", f.loc(n.ast))


def rule_r7(ctx):
    """Shared with C12.R3: a client disconnect in mid-response releases a worker paused on the watermark (connected
    cleared, then notify, inside the lock) - only then does the worker reach the finally-close of the iterable."""
    from . import c12
    c12.rule_r3(ctx, rid="C09.R7")


def rule_r8(ctx):
    """Shared with C12.R1: a worker released by a disconnect re-tests `connected` and raises ClientDisconnected before it
    appends anything - the route by which a mid-response disconnect reaches the handlers (and the finally-close)."""
    from . import c12
    c12.rule_r1(ctx, rid="C09.R8")


def rule_r9(ctx, rid="C09.R9"):
    ctx.r.rule(rid, "a failure swallowed inside Task.service ends the connection: every path from one of its handlers to the normal exit stores close_on_finish = True (the response in progress can no longer be delimited)")
    p = ctx.p
    f = p.func("task.Task.service")
    g = cfg_of(f)
    hs = [n for n in g.nodes if n.kind == "handler"]
    stores = [n for n in g.nodes if n.kind == "stmt" and isinstance(n.ast, ast.Assign) and any(dotted(t) == "self.close_on_finish" for t in n.ast.targets)
              and isinstance(n.ast.value, ast.Constant) and n.ast.value.value is True]
    calls = [n for n, c in find_calls(g, lambda c: dotted(c.func) == "self.set_close_on_finish")]
    n = 0
    for h in hs:
        n += 1
        pth = g.path(h, g.exit, avoid=stores + calls, follow_exc=False)
        if pth is None:
            ctx.r.ok(rid, "handler `except %s`: every swallowing path closes the connection" % (norm(h.ast.type) if h.ast.type is not None else ""), f.loc(h.ast))
        else:
            ctx.r.violation(rid, key_of(f, None, "swallow-without-close::" + (norm(h.ast.type) if h.ast.type is not None else "bare")),
                            "Task.service can swallow %s and return without close_on_finish = True (%s): the connection stays open after a response that was cut short, and the next response is written into it"
                            % (norm(h.ast.type) if h.ast.type is not None else "an exception", g.describe_path(pth)), f.loc(h.ast))
    ctx.r.floor(rid, n, 1, "handlers in Task.service")


def rule_r10(ctx, rid="C09.R10"):
    ctx.r.rule(rid, "teardown closes every queued buffer: in handle_close the close() of one buffer is inside a try of its own within the loop (a close() that raises does not skip the remaining buffers / handed-over files)")
    p = ctx.p
    f = p.func("channel.HTTPChannel.handle_close")
    loops = [x for x in ast.walk(f.node) if isinstance(x, ast.For) and "outbufs" in norm(x.iter)]
    if not loops:
        ctx.r.violation(rid, key_of(f, None, "no-close-loop"), "handle_close does not loop over the output buffers", f.loc())
        return
    n = 0
    for lp in loops:
        tv = lp.target.id if isinstance(lp.target, ast.Name) else None
        for c in ast.walk(lp):
            if isinstance(c, ast.Call) and isinstance(c.func, ast.Attribute) and c.func.attr == "close" and dotted(c.func.value) == tv:
                n += 1
                # a Try that contains the call and is itself contained in the loop body, with a handler that does not leave the loop
                tries = [t for t in ast.walk(lp) if isinstance(t, ast.Try) and any(y is c for b in t.body for y in ast.walk(b))]
                good = [t for t in tries if t.handlers and any(h.type is None or norm(h.type) in ("Exception", "BaseException") for h in t.handlers)
                        and not any(isinstance(y, (ast.Break, ast.Return, ast.Raise)) for h in t.handlers for y in ast.walk(h))]
                if good:
                    ctx.r.ok(rid, "%s.close() is contained per buffer" % tv, f.loc(c))
                else:
                    ctx.r.violation(rid, key_of(f, None, "close-aborts-loop"), "a close() that raises leaves the loop over the output buffers: the remaining buffers (and files handed over through wsgi.file_wrapper) are never closed", f.loc(c))
    ctx.r.floor(rid, n, 1, "buffer close calls in handle_close")


def rule_r11(ctx):
    """Shared with C11.R1: 'one complete 500 response and the connection is then closed' - the close decision after the
    error response is atomic with respect to received(), so a pipelined request is not served after the 500."""
    from . import c11
    c11.rule_r1(ctx, rid="C09.R11")


def rule_r12(ctx):
    """Shared with C13.R1 (a worker's flush never closes the socket itself: the I/O thread may be about to select() on it) and C13.R5 (a socket error swallowed by a flush marks the channel for closing, which is what releases a paused task and lets its iterable be closed)."""
    from . import c13
    c13.rule_r1(ctx, rid="C09.R12")
    c13.rule_r5(ctx, rid="C09.R12")


def rule_r13(ctx):
    """Shared with C11.R1/R2: 'contained' - after a failed request the worker's close decision (flags, closing of the queued
    requests, queue reset) is one requests_lock region and received() tests the flags inside that lock; tested outside, a
    pipelined request read before the failure is parsed and executed after the 500 / truncated response."""
    from . import c11
    c11.rule_r1(ctx, rid="C09.R13")
    c11.rule_r2(ctx, rid="C09.R13")


def rule_r14(ctx):
    """Shared with C13.R10: a send error in the I/O thread's flush must not leave the output lock held - the worker paused in
    write_soon would never return from wait(), the task never finishes and the iterable's close() is never called."""
    from . import c13
    c13.rule_r10(ctx, rid="C09.R14")


RULES = [rule_r1, rule_r2, rule_r3, rule_r4, rule_r5, rule_r6, rule_r7, rule_r8, rule_r9, rule_r10, rule_r11, rule_r12, rule_r13, rule_r14]

from ..selftest import M, T, V  # noqa: E402

selftest = [
    M("disconnect-handler-widened", "channel.py", "        except ClientDisconnected:\n            self.logger.info(", "        except (ClientDisconnected, ConnectionError):\n            self.logger.info(", "R4"),
    M("flag-before-handover", "task.py", "                    self.channel.write_soon(app_iter)\n                    can_close_app_iter = False\n", "                    can_close_app_iter = False\n                    self.channel.write_soon(app_iter)\n", "R1"),
    M("finally-dropped", "task.py", "        finally:\n            if can_close_app_iter and hasattr(app_iter, \"close\"):\n                app_iter.close()", "        except ZeroDivisionError:\n            pass\n        if can_close_app_iter and hasattr(app_iter, \"close\"):\n            app_iter.close()", "R1"),
    M("double-close", "task.py", "                    self.channel.write_soon(app_iter)\n                    can_close_app_iter = False\n                    return", "                    self.channel.write_soon(app_iter)\n                    return", "R1"),
    M("raising-before-try", "task.py", "        can_close_app_iter = True\n        try:\n            if isinstance(app_iter, ReadOnlyFileBasedBuffer):", "        can_close_app_iter = True\n        self.logger.debug(\"app returned %r\", app_iter)\n        try:\n            if isinstance(app_iter, ReadOnlyFileBasedBuffer):", "R1"),
    M("worker-except-exception", "task.py", "            except BaseException:\n                self.logger.exception(\"Exception when servicing %r\", task)", "            except Exception:\n                self.logger.exception(\"Exception when servicing %r\", task)", "R3"),
    M("worker-reraise", "task.py", "            except BaseException:\n                self.logger.exception(\"Exception when servicing %r\", task)", "            except BaseException:\n                self.logger.exception(\"Exception when servicing %r\", task)\n                raise", "R3"),
    M("traceback-always", "channel.py", "                if self.adj.expose_tracebacks:\n                    body = traceback.format_exc()\n                else:\n                    body = \"The server encountered an unexpected internal server error\"", "                body = traceback.format_exc()", "R5"),
    M("500-after-output", "channel.py", "            if not task.wrote_header:\n                if self.adj.expose_tracebacks:", "            if True:\n                if self.adj.expose_tracebacks:", "R6"),
    M("popped-not-closed", "channel.py", "                    toclose = self.outbufs.pop(0)\n                    try:\n                        toclose.close()\n                    except Exception:\n                        self.logger.exception(\"Unexpected error when closing an outbuf\")", "                    self.outbufs.pop(0)", "R2"),
    M("generic-handler-narrowed", "channel.py", "        except Exception:\n            self.logger.exception(\"Exception while serving %s\" % task.request.path)", "        except (ValueError, AssertionError):\n            self.logger.exception(\"Exception while serving %s\" % task.request.path)", "R4"),
    M("service-swallows-all-oserror", "task.py", "            self.close_on_finish = True\n            if self.channel.adj.log_socket_errors:\n                raise", "            self.close_on_finish = True", None),
    M("disconnect-not-closing", "channel.py", "            self.logger.info(\"Client disconnected while serving %s\" % task.request.path)\n            task.close_on_finish = True", "            self.logger.info(\"Client disconnected while serving %s\" % task.request.path)", "R6"),
    T("close-via-local", "task.py", "            if can_close_app_iter and hasattr(app_iter, \"close\"):\n                app_iter.close()", "            if can_close_app_iter:\n                if hasattr(app_iter, \"close\"):\n                    app_iter.close()"),
    T("catch-together", "channel.py", "                except ClientDisconnected:\n                    task.close_on_finish = True\n            else:", "                except (ClientDisconnected, ConnectionError):\n                    task.close_on_finish = True\n            else:"),
]
