"""C18 — connection limit; idle connections reaped, busy ones never."""
from __future__ import annotations

import ast

from ..callgraph import get_callgraph
from ..cfg import cfg_of
from ..locks import accesses
from ..model import AnalysisError, dotted, norm, walk_own
from .common import eval_compare_on, find_calls, guards_of, key_of, local_derives_from_call, mentions, resolve_locals

EXPLANATION = (
    "Static guard / dominance analysis of admission and reaping: the listener's readable() is false in overflow and the "
    "overflow flag is set under len(map) >= limit and cleared under len(map) < limit (evaluated on the three "
    "orderings: refusing at the limit, complementary); the only will_close store reachable from maintenance() is "
    "control-dependent on 'no request queued' and last_activity < now - channel_timeout; in service() no statement "
    "removes the served request from the queue before the task ran (so the reaping guard covers the whole execution); "
    "activity stamps exist at construction, data received, bytes sent, request finished; maintenance is scheduled from "
    "the listener's readable() every cleanup_interval; a mark is honoured on the next write event (shared with "
    "C05/C11). Everything temporal ('within one cleanup_interval plus one loop period', reaping that waits for socket "
    "writability) depends on readiness the source does not contain and is not decided."
)


def _is_len_map(x):
    return isinstance(x, ast.Call) and dotted(x.func) == "len" and x.args and dotted(x.args[0]) == "self._map"


def _is_limit(x):
    return dotted(x) == "self.adj.connection_limit"


def rule_r1(ctx):
    rid = "C18.R1"
    ctx.r.rule(rid, "admission: readable() is false in overflow; overflow set under len(map) >= limit, cleared under len(map) < limit (complementary, refusing at the limit)")
    p = ctx.p
    f = p.func("server.BaseWSGIServer.readable")
    g = cfg_of(f)
    sets = [n for n in g.nodes if n.kind == "stmt" and isinstance(n.ast, ast.Assign) and dotted(n.ast.targets[0]) == "self.in_connection_overflow" and isinstance(n.ast.value, ast.Constant)]
    on = [n for n in sets if n.ast.value.value is True]
    off = [n for n in sets if n.ast.value.value is False]
    if not on or not off:
        ctx.r.violation(rid, key_of(f, None, "overflow-flag"), "the overflow flag is not both set and cleared in readable()", f.loc())
        return

    def table(node):
        out = {}
        for name, (a, b) in (("<", (0, 1)), ("=", (1, 1)), (">", (2, 1))):
            val = True
            seen = False
            for (t, pol) in guards_of(g, node):
                v = eval_compare_on(t, _is_len_map, _is_limit, a, b)
                if v is not None:
                    seen = True
                    val = val and (v == pol)
            out[name] = val if seen else None
        return out
    ton, toff = table(on[0]), table(off[0])
    if ton == {"<": False, "=": True, ">": True}:
        ctx.r.ok(rid, "overflow entered when len(map) >= connection_limit (at the limit nothing more is accepted)", f.loc(on[0].ast))
    else:
        ctx.r.violation(rid, key_of(f, None, "overflow-on-comparison"), "overflow is entered on %s: at the limit a further connection is still accepted" % [k for k, v in ton.items() if v], f.loc(on[0].ast))
    if toff == {"<": True, "=": False, ">": False}:
        ctx.r.ok(rid, "overflow left when len(map) < connection_limit", f.loc(off[0].ast))
    else:
        ctx.r.violation(rid, key_of(f, None, "overflow-off-comparison"), "overflow is left on %s" % [k for k, v in toff.items() if v], f.loc(off[0].ast))
    if None not in ton.values() and None not in toff.values() and all(ton[k] != toff[k] for k in ton):
        ctx.r.ok(rid, "enter / leave conditions are complementary on <,=,>", f.loc())
    else:
        ctx.r.violation(rid, key_of(f, None, "overflow-gap"), "enter/leave conditions of the overflow state are not complementary: %s vs %s" % (ton, toff), f.loc())
    rets = [n for n in g.nodes if n.kind == "stmt" and isinstance(n.ast, ast.Return)]
    acc = [n for n in rets if any(pol and dotted(t) == "self.accepting" for (t, pol) in guards_of(g, n))]
    if acc and all(norm(n.ast.value) == "not self.in_connection_overflow" for n in acc):
        ctx.r.ok(rid, "readable() == not in_connection_overflow while accepting", f.loc(acc[0].ast))
    else:
        ctx.r.violation(rid, key_of(f, None, "readable-ignores-overflow"), "the listener stays readable in overflow: %s" % [norm(n.ast.value) for n in acc], f.loc())


def _mentions_len_map(e):
    return any(_is_len_map(x) for x in ast.walk(e))


def rule_r2(ctx):
    rid = "C18.R2"
    ctx.r.rule(rid, "reaping guard: the will_close store in maintenance() is control-dependent on 'no request queued' and last_activity < now - channel_timeout")
    p = ctx.p
    f = p.func("server.BaseWSGIServer.maintenance")
    g = cfg_of(f)
    st = [n for n in g.nodes if n.kind == "stmt" and isinstance(n.ast, ast.Assign) and isinstance(n.ast.targets[0], ast.Attribute) and n.ast.targets[0].attr == "will_close"]
    if not st:
        ctx.r.violation(rid, key_of(f, None, "no-reaping"), "maintenance() never marks a channel for closing", f.loc())
        return
    now = f.params[1]
    for n in st:
        ch = dotted(n.ast.targets[0].value)
        gs = guards_of(g, n)
        idle = any((not pol) and dotted(t) == ch + ".requests" for (t, pol) in gs) or any(pol and norm(t).replace(" ", "") == "len(%s.requests)==0" % ch for (t, pol) in gs)
        if idle:
            ctx.r.ok(rid, "only channels with no queued / running request are reaped", f.loc(n.ast))
        else:
            ctx.r.violation(rid, key_of(f, None, "reaps-busy"), "a channel is marked for closing without testing that no request is queued or executing: a slow application gets its connection reaped", f.loc(n.ast))
        old = None
        for (t, pol) in gs:
            if isinstance(t, ast.Compare) and len(t.ops) == 1 and any(isinstance(x, ast.Attribute) and x.attr == "last_activity" for x in ast.walk(t)):
                old = (t, pol)
        if old is None:
            ctx.r.violation(rid, key_of(f, None, "reaps-active"), "reaping does not consult last_activity", f.loc(n.ast))
            continue
        t, pol = old
        other = t.comparators[0] if any(isinstance(x, ast.Attribute) and x.attr == "last_activity" for x in ast.walk(t.left)) else t.left
        la_left = other is t.comparators[0]
        # cutoff = now - channel_timeout
        cut_ok = False
        if isinstance(other, ast.Name):
            d = [m for m in walk_own(f.node) if isinstance(m, ast.Assign) and dotted(m.targets[0]) == other.id]
            if d and norm(d[0].value).replace(" ", "") == "%s-self.adj.channel_timeout" % now:
                cut_ok = True
        elif norm(other).replace(" ", "") == "%s-self.adj.channel_timeout" % now:
            cut_ok = True
        op = type(t.ops[0])
        dir_ok = (la_left and ((op is ast.Lt and pol) or (op is ast.GtE and not pol))) or ((not la_left) and ((op is ast.Gt and pol) or (op is ast.LtE and not pol)))
        if cut_ok and dir_ok:
            ctx.r.ok(rid, "reaped only when last_activity < now - channel_timeout", f.loc(n.ast))
        else:
            ctx.r.violation(rid, key_of(f, None, "reap-cutoff"), "the inactivity test is %s%s (cutoff = now - channel_timeout: %s)" % ("" if pol else "not ", norm(t), cut_ok), f.loc(n.ast))
        if isinstance(n.ast.value, ast.Constant) and n.ast.value.value is True:
            ctx.r.ok(rid, "the mark is will_close = True", f.loc(n.ast))
        else:
            ctx.r.violation(rid, key_of(f, None, "mark-value"), "maintenance stores %s into will_close" % norm(n.ast.value), f.loc(n.ast))
    it = [n for n in g.nodes if n.kind == "iter"]
    if it and "active_channels" in norm(it[0].ast.iter):
        ctx.r.ok(rid, "maintenance visits every active channel", f.loc(it[0].ast))
        # ... every one: nothing leaves the scan early (channels are in no particular activity order)
        early = [x for x in ast.walk(it[0].ast) if isinstance(x, (ast.Break, ast.Return))]
        if early:
            ctx.r.violation(rid, key_of(f, None, "scan-leaves-early"), "the maintenance scan stops at %s: channels after that one are never examined, an idle connection behind an active one is never reaped" % norm(early[0]), f.loc(early[0]))
        else:
            ctx.r.ok(rid, "the scan never leaves the loop early", f.loc(it[0].ast))
    else:
        ctx.r.violation(rid, key_of(f, None, "maintenance-scope"), "maintenance does not iterate over the active channels", f.loc())
    # nothing else in maintenance closes
    cg = get_callgraph(p)
    for n, c in find_calls(g, lambda c: isinstance(c.func, ast.Attribute) and c.func.attr in ("handle_close", "close")):
        ctx.r.violation(rid, key_of(f, None, "maintenance-closes"), "maintenance closes directly (%s) instead of marking" % norm(c), f.loc(n.ast))


def rule_r3(ctx):
    rid = "C18.R3"
    ctx.r.rule(rid, "busy => queued: service() never removes the served request from the queue before the task has run")
    p = ctx.p
    cg = get_callgraph(p)
    f = p.func("channel.HTTPChannel.service")
    g = cfg_of(f)
    from .c04 import _queue_removal_nodes
    rem = _queue_removal_nodes(g)
    execs = [n for n, c in find_calls(g, lambda c: any(t.qual == "task.Task.service" for t in cg.callees(c)))]
    if not execs or not rem:
        raise AnalysisError("service() no longer executes a task / removes requests")
    for r in rem:
        before = [e for e in execs if e.id in g.reach(r, follow_exc=True)]
        if before:
            ctx.r.violation(rid, key_of(f, None, "dequeue-before-run::" + norm(r.ast)[:30]), "%s can execute before the task runs: while the application works the queue looks empty and maintenance may reap the connection" % norm(r.ast), f.loc(r.ast))
        else:
            ctx.r.ok(rid, "%s only after the task has run" % norm(r.ast), f.loc(r.ast))


def rule_r4(ctx):
    rid = "C18.R4"
    ctx.r.rule(rid, "activity stamps exist where the property defines activity: construction, data received, bytes sent, request finished")
    p = ctx.p
    chan = p.cls("channel.HTTPChannel")
    ws = {}
    for a in accesses(p, "last_activity", [chan]):
        if a.kind == "write" and a.func.qual.startswith("channel.HTTPChannel."):
            ws.setdefault(a.func.name, []).append(a)
    need = {"__init__": "construction", "handle_read": "data received", "_flush_some": "bytes sent", "service": "request finished"}
    for fn, what in need.items():
        if fn not in ws:
            ctx.r.violation(rid, "stamp-missing::" + fn, "last_activity is not refreshed on '%s' (%s)" % (what, fn), "src/waitress/channel.py")
            continue
        a = ws[fn][0]
        val = a.stmt.value if isinstance(a.stmt, ast.Assign) else None
        if isinstance(val, ast.Name):
            val = resolve_locals(a.func, val) or val  # now = time.time(); ... = now
        if val is not None and norm(val) == "time.time()":
            ctx.r.ok(rid, "%s: last_activity = time.time()" % what, a.loc)
        else:
            ctx.r.violation(rid, key_of(a.func, None, "stamp-value"), "%s stamps last_activity with %s" % (fn, norm(val) if val is not None else "?"), a.loc)
        g = cfg_of(a.func)
        nodes = [nd for a2 in ws[fn] if a2.func is a.func for nd in g.nodes_of(a2.stmt)]  # every copy (an inlined helper is copied per call)
        if fn == "service":
            # 'request finished': the stamp follows the work - no way from a task's execution to the end of service()
            # passes no stamp (stamped before the task runs, a connection whose request ran for longer than the timeout is
            # reaped by the next maintenance pass although it only just became idle)
            runs = [nd for nd in g.nodes if nd.kind == "stmt" and nd.ast is not None and any(isinstance(c, ast.Call) and isinstance(c.func, ast.Attribute) and c.func.attr == "service" and dotted(c.func.value) in ("task", "self.current_task") for c in ast.walk(nd.ast))]
            if not runs:
                raise AnalysisError("anchor vanished: the task execution in HTTPChannel.service")
            skipped = [r for r in runs if g.path(r, g.exit, avoid=nodes, follow_exc=False) is not None]
            if not skipped:
                ctx.r.ok(rid, "stamped after the request was served: every normal way from task.service() to the end of service() passes the stamp", a.loc)
            else:
                ctx.r.violation(rid, key_of(a.func, None, "stamp-before-work"), "a normal path leads from the execution of a task to the end of service() without refreshing last_activity: the time the request took counts as idle time and the connection can be reaped the moment it becomes idle", a.func.loc(skipped[0].ast))
        if fn == "handle_read":
            if nodes and all(any(pol and isinstance(t, ast.Name) and local_derives_from_call(a.func, t.id, lambda c: dotted(c.func) == "self.recv") is True for (t, pol) in guards_of(g, nd)) for nd in nodes):
                ctx.r.ok(rid, "stamped when data was received", a.loc)
            else:
                ctx.r.violation(rid, key_of(a.func, None, "stamp-read-guard"), "the read stamp is not tied to 'data received'", a.loc)
        if fn == "_flush_some":
            if not any(isinstance(c, ast.Call) and dotted(c.func) == "self.send" for c in ast.walk(a.func.node)):
                raise AnalysisError("_flush_some no longer contains the send loop (moved into a helper the normal form cannot expand): the stamp rule does not read this shape")
            if nodes and all(any(pol and isinstance(t, ast.Name) and local_derives_from_call(a.func, t.id, lambda c: dotted(c.func) == "self.send") is True for (t, pol) in guards_of(g, nd)) for nd in nodes):
                ctx.r.ok(rid, "stamped when bytes were sent", a.loc)
            else:
                ctx.r.violation(rid, key_of(a.func, None, "stamp-send-guard"), "the send stamp is not tied to 'bytes were sent'", a.loc)
            # ... and no way out of the flush skips it once something was sent: a partial send to a slow reader is activity
            sendp = lambda c: dotted(c.func) == "self.send"  # noqa: E731
            flags = {x.id for x in ast.walk(a.func.node) if isinstance(x, ast.Name) and local_derives_from_call(a.func, x.id, sendp) is True}
            accs = [x for x in g.nodes if x.kind == "stmt" and ((isinstance(x.ast, ast.AugAssign) and isinstance(x.ast.target, ast.Name) and x.ast.target.id in flags)
                                                             or (isinstance(x.ast, ast.Assign) and any(isinstance(t, ast.Name) and t.id in flags for t in x.ast.targets) and isinstance(x.ast.value, ast.BinOp) and isinstance(x.ast.value.op, ast.Add)))]
            if not accs:
                raise AnalysisError("anchor vanished: the sent-bytes accumulation in _flush_some")
            # the family of running totals: locals only ever bound to a falsy constant, increased (`+=`, `a + b`), or copied
            # (plainly, through bool(), or element-wise in a tuple assignment) from another member.  A value freshly
            # returned by send() - tested per call - is not a member.
            def _unbool(e):
                return e.args[0] if isinstance(e, ast.Call) and dotted(e.func) == "bool" and len(e.args) == 1 else e

            def _bindings(m):
                out = []
                for y in ast.walk(a.func.node):
                    if isinstance(y, ast.Assign):
                        for t in y.targets:
                            if isinstance(t, ast.Name) and t.id == m:
                                out.append(("=", y.value))
                            elif isinstance(t, ast.Tuple) and isinstance(y.value, ast.Tuple) and len(t.elts) == len(y.value.elts):
                                for tt, vv in zip(t.elts, y.value.elts):
                                    if isinstance(tt, ast.Name) and tt.id == m:
                                        out.append(("=", vv))
                            elif any(isinstance(z, ast.Name) and z.id == m for z in ast.walk(t)):
                                out.append(("?", None))
                    elif isinstance(y, ast.AugAssign) and isinstance(y.target, ast.Name) and y.target.id == m:
                        out.append(("+=" if isinstance(y.op, ast.Add) else "?", y.value))
                    elif isinstance(y, (ast.For, ast.comprehension, ast.NamedExpr)) and any(isinstance(z, ast.Name) and z.id == m for z in ast.walk(y.target)):
                        out.append(("?", None))
                return out
            family = {x.ast.target.id if isinstance(x.ast, ast.AugAssign) else x.ast.targets[0].id for x in accs}
            changed = True
            while changed:
                changed = False
                for m in sorted(flags - family):
                    bs = _bindings(m)
                    if bs and all(k == "=" and ((isinstance(v, ast.Constant) and not v.value) or (isinstance(_unbool(v), ast.Name) and _unbool(v).id in family)) for k, v in bs):
                        family.add(m)
                        changed = True
            for m in sorted(family):
                if not all(k == "+=" or (k == "=" and ((isinstance(v, ast.Constant) and not v.value) or (isinstance(_unbool(v), ast.Name) and _unbool(v).id in family)
                                                       or (isinstance(v, ast.BinOp) and isinstance(v.op, ast.Add)))) for k, v in _bindings(m)):
                    family.discard(m)
            npos = []
            for x in accs:
                # once a truthy amount was added the totals are truthy: the false outcome of a later `if <total>` is not a way out
                v = x.ast.value
                positive = isinstance(x.ast, ast.AugAssign) and isinstance(x.ast.op, ast.Add) and isinstance(v, ast.Name) and any(pol and isinstance(t, ast.Name) and t.id == v.id for (t, pol) in guards_of(g, x))

                if not positive:
                    continue  # adds an amount that may be zero (a subtotal handed up): not by itself "bytes were sent"
                npos.append(x)

                def _flag(e):
                    e = _unbool(e)
                    return isinstance(e, ast.Name) and e.id in family
                dead = [b for b in g.nodes if b.kind == "branch" and b.polarity is False and _flag(b.ast)] if positive else []
                pth = g.path(x, g.exit, avoid=nodes + dead, follow_exc=False)
                if pth is None:
                    ctx.r.ok(rid, "after `%s` every normal way out of the flush stamps the activity" % norm(x.ast), a.func.loc(x.ast))
                else:
                    ctx.r.violation(rid, key_of(a.func, None, "stamp-send-skipped"), "_flush_some can return after sending bytes without stamping last_activity (%s): a connection that keeps sending to a slow reader looks idle and is reaped in mid-transfer" % g.describe_path(pth), a.func.loc(x.ast))
            if not npos:
                raise AnalysisError("no accumulation of a positive sent amount found in _flush_some")
        if fn == "service":
            if nodes and all(g.path(g.entry, g.exit, avoid=[nd], follow_exc=False) is None for nd in nodes):
                ctx.r.ok(rid, "every normal end of service() stamps the activity", a.loc)
            else:
                ctx.r.violation(rid, key_of(a.func, None, "stamp-finish-skipped"), "service() can finish without stamping last_activity", a.loc)


def rule_r5(ctx):
    rid = "C18.R5"
    ctx.r.rule(rid, "maintenance is scheduled from the loop: readable() runs it when now >= next_channel_cleanup and advances that by cleanup_interval")
    p = ctx.p
    f = p.func("server.BaseWSGIServer.readable")
    g = cfg_of(f)
    cg = get_callgraph(p)
    m = [(n, c) for n, c in find_calls(g, lambda c: dotted(c.func) == "self.maintenance")]
    if not m:
        ctx.r.violation(rid, key_of(f, None, "maintenance-unscheduled"), "readable() never calls maintenance(): idle connections are never reaped", f.loc())
        return
    n, c = m[0]
    gs = guards_of(g, n)
    sched = [(t, pol) for (t, pol) in gs if isinstance(t, ast.Compare) and "next_channel_cleanup" in norm(t)]
    if len(gs) == 1 and sched and ((isinstance(sched[0][0].ops[0], ast.GtE) and sched[0][1] and dotted(sched[0][0].comparators[0]) == "self.next_channel_cleanup") or
                                   (isinstance(sched[0][0].ops[0], ast.LtE) and sched[0][1] and dotted(sched[0][0].left) == "self.next_channel_cleanup")):
        ctx.r.ok(rid, "maintenance runs when now >= next_channel_cleanup (and only then)", f.loc(n.ast))
    else:
        ctx.r.violation(rid, key_of(f, None, "maintenance-guard"), "maintenance is guarded by %s" % [(norm(t), pol) for (t, pol) in gs], f.loc(n.ast))
    adv = [x for x in g.nodes if x.kind == "stmt" and isinstance(x.ast, ast.Assign) and dotted(x.ast.targets[0]) == "self.next_channel_cleanup"]
    nowv = norm(c.args[0]) if c.args else None
    if adv and norm(adv[0].ast.value).replace(" ", "") in ("%s+self.adj.cleanup_interval" % nowv, "self.adj.cleanup_interval+%s" % nowv) and any(g.guards(adv[0]) and True for _ in [0]):
        ctx.r.ok(rid, "next_channel_cleanup = now + cleanup_interval", f.loc(adv[0].ast))
    else:
        ctx.r.violation(rid, key_of(f, None, "cleanup-advance"), "next_channel_cleanup is advanced by %s" % ([norm(x.ast.value) for x in adv] or "nothing"), f.loc())
    nd = [x for x in walk_own(f.node) if isinstance(x, ast.Assign) and dotted(x.targets[0]) == nowv]
    if nd and norm(nd[0].value) == "time.time()":
        ctx.r.ok(rid, "now = time.time()", f.loc(nd[0]))
    else:
        ctx.r.violation(rid, key_of(f, None, "now-source"), "the maintenance clock is not time.time()", f.loc())
    # the loop period is the configured one wherever the server starts the loop (single listener and MultiSocketServer)
    nl = 0
    for q, fr in sorted(p.functions.items()):
        if fr.module.name != "server":
            continue
        for c in [x for x in ast.walk(fr.node) if isinstance(x, ast.Call) and isinstance(x.func, ast.Attribute) and x.func.attr == "loop" and "asyncore" in norm(x.func.value)]:
            nl += 1
            kw = {k.arg: norm(k.value) for k in c.keywords}
            if kw.get("timeout", "").endswith("adj.asyncore_loop_timeout"):
                ctx.r.ok(rid, "%s polls with asyncore_loop_timeout" % q, fr.loc(c))
            else:
                ctx.r.violation(rid, key_of(fr, None, "loop-timeout"), "%s starts the I/O loop with timeout=%s (default 30 s) instead of adj.asyncore_loop_timeout: maintenance only runs when the loop makes a pass, so idle connections are reaped up to a loop period late"
                                % (q, kw.get("timeout")), fr.loc(c))
    ctx.r.floor(rid, nl, 2, "places where the server starts the I/O loop")
    # the scheduling happens on every call, before the accepting test
    acc = [x for x in g.nodes if x.kind == "test" and dotted(x.ast) == "self.accepting"]
    tn = [x for x in g.nodes if x.kind == "test" and "next_channel_cleanup" in norm(x.ast)]
    if tn and all(g.dominates(tn[0], a) for a in acc) and not g.guards(tn[0]) and g.path(g.entry, g.exit, avoid=tn, follow_exc=False) is None:
        ctx.r.ok(rid, "the schedule test runs on every readable() call", f.loc(tn[0].ast))
    else:
        ctx.r.violation(rid, key_of(f, None, "schedule-conditional"), "the maintenance schedule is only evaluated under a condition (a path through readable() returns without testing next_channel_cleanup: while that condition lasts idle connections are never reaped)", f.loc())


def rule_r6(ctx):
    """Shared: the mark is honoured on the next write event."""
    from .c05 import rule_r4 as writable_rule
    from .c11 import rule_r3 as teardown_rule
    rid = "C18.R6"
    before = len(ctx.r.violations)
    writable_rule(ctx, rid=rid)
    teardown_rule(ctx, rid=rid)
    keep = [v for v in ctx.r.violations[before:] if "writable" in v["key"] or "teardown" in v["key"] or "relay" in v["key"]]
    ctx.r.violations[before:] = keep


def rule_r7(ctx):
    """Shared with C13.R3: 'accepting resumes' - a fault while setting up one accepted connection does not close the
    listening socket (every statement touching the accepted socket is inside the try of handle_accept)."""
    from . import c13
    c13.rule_r3(ctx, rid="C18.R7")


def rule_r8(ctx):
    """Shared with C04.R4: pop and re-dispatch are one requests_lock region - a request dispatched twice is popped by the first finisher while the second is still executing, and an executing connection with an empty queue is reaped."""
    from . import c04
    c04.rule_r4(ctx, rid="C18.R8")


RULES = [rule_r1, rule_r2, rule_r3, rule_r4, rule_r5, rule_r6, rule_r7, rule_r8]

from ..selftest import M, T, V  # noqa: E402

selftest = [
    M("full-socket-returns", "channel.py", "                    # failed to write anything, break out entirely\n                    dobreak = True\n\n                    break", "                    return False", "R4"),
    M("overflow-gt", "server.py", "                and len(self._map) >= self.adj.connection_limit", "                and len(self._map) > self.adj.connection_limit", "R1"),
    M("overflow-leave-le", "server.py", "                and len(self._map) < self.adj.connection_limit", "                and len(self._map) <= self.adj.connection_limit", "R1"),
    M("readable-ignores-overflow", "server.py", "            return not self.in_connection_overflow", "            return True", "R1"),
    M("reap-busy", "server.py", "            if (not channel.requests) and channel.last_activity < cutoff:", "            if channel.last_activity < cutoff:", "R2"),
    M("reap-all-idle", "server.py", "            if (not channel.requests) and channel.last_activity < cutoff:", "            if not channel.requests:", "R2"),
    M("cutoff-plus", "server.py", "        cutoff = now - self.adj.channel_timeout", "        cutoff = now + self.adj.channel_timeout", "R2"),
    M("dequeue-before-run", "channel.py", "        request = self.requests[0]\n\n        if request.error:", "        request = self.requests.pop(0)\n\n        if request.error:", None),
    M("no-send-stamp", "channel.py", "        if sent:\n            self.last_activity = time.time()\n\n            return True", "        if sent:\n            return True", "R4"),
    M("no-read-stamp", "channel.py", "        if data:\n            self.last_activity = time.time()\n            self.received(data)", "        if data:\n            self.received(data)", "R4"),
    M("maintenance-unscheduled", "server.py", "            self.next_channel_cleanup = now + self.adj.cleanup_interval\n            self.maintenance(now)", "            self.next_channel_cleanup = now + self.adj.cleanup_interval", "R5"),
    M("cleanup-never-advances", "server.py", "            self.next_channel_cleanup = now + self.adj.cleanup_interval\n", "            self.next_channel_cleanup = self.adj.cleanup_interval\n", "R5"),
    M("writable-ignores-will_close", "channel.py", "        return self.total_outbufs_len > 0 or self.will_close or self.close_when_flushed", "        return self.total_outbufs_len > 0 or self.close_when_flushed", "R6"),
    T("cutoff-inline", "server.py", "            if (not channel.requests) and channel.last_activity < cutoff:", "            if (not channel.requests) and channel.last_activity < now - self.adj.channel_timeout:"),
    T("iterate-copy", "server.py", "        for channel in self.active_channels.values():", "        for channel in list(self.active_channels.values()):"),
]
