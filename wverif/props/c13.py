"""C13 — client faults are contained; teardown once, on the I/O thread only."""
from __future__ import annotations

import ast

from ..callgraph import get_callgraph
from ..cfg import cfg_of, handler_names
from ..excflow import enclosing_handlers, handler_behaviour, handler_catches, route
from ..locks import RoleReach, accesses, get_locks, thread_roles
from ..model import AnalysisError, NotConst, Sym, dotted, norm, walk_own
from .common import calls_in, cfg_nodes_with_ast, cmp_fact, find_calls, guards_of, key_of, node_exprs

EXPLANATION = (
    "Static ownership and containment analysis. A points-to based call graph (receiver-sensitive, with constant "
    "propagation of boolean keyword arguments such as do_close) gives, for every thread role (I/O loop, worker threads "
    "incl. application callbacks, shutdown), the set of functions it can execute; the rules then check that no worker "
    "path reaches a teardown primitive, that every dispatcher event is invoked under the loop's catch-all, that every "
    "statement touching a just-accepted socket is inside the accept handler's try, that the errno tables map "
    "disconnects to close-or-0, and that a socket error re-raised by send/recv ends in a handler that closes the "
    "channel. Decides the structural necessary conditions of C13 on all paths/sites; it does not decide effects on "
    "other connections' byte streams or the behaviour of select() itself."
)

REQUIRED_ERRNOS = {"ECONNRESET", "ENOTCONN", "ESHUTDOWN", "ECONNABORTED", "EPIPE", "EBADF"}


def worker_role(ctx):
    """WORKER role including application callbacks that escape into the WSGI application."""
    def mk():
        p = ctx.p
        cg = get_callgraph(p)
        base = thread_roles(p)["WORKER"]
        roots = []
        for (s, t) in cg.thread_targets:
            if t[0] == "bound":
                roots.append((t[1], t[2][1] if t[2][0] == "inst" else None))
        # escaping callables: passed to / stored for opaque code reached by the worker
        esc = set()
        for q in list(base.funcs):
            f = p.functions[q]
            for s in cg.sites_in(f):
                if not s.ext or not isinstance(s.node, ast.Call):
                    continue
                if any(x.endswith("Thread") for x in s.ext):
                    continue
                args = list(s.node.args) + [k.value for k in s.node.keywords]
                for a in args:
                    for v in _deep_values(cg, cg.types_of(f, a)):
                        if v[0] == "func":
                            esc.add((v[1], None))
                        elif v[0] == "bound":
                            esc.add((v[1], v[2][1] if v[2][0] in ("inst", "cls") else None))
        # return values of escaping closures escape too (start_response returns self.write)
        more = set()
        for (f, c) in esc:
            for v in cg.get(("ret", f.qual)):
                if v[0] == "bound":
                    more.add((v[1], v[2][1] if v[2][0] in ("inst", "cls") else None))
                elif v[0] == "func":
                    more.add((v[1], None))
        esc |= more
        esc = {(f, c) for (f, c) in esc if not f.qual.startswith("adjustments.")}
        rr = RoleReach(p, roots + sorted(esc, key=lambda x: x[0].qual))
        rr.escaping = sorted(f.qual for (f, c) in esc)
        return rr
    return ctx.memo("worker-role", mk)


def _deep_values(cg, vals, depth=0):
    out = set()
    for v in vals:
        if v[0] == "cont" and depth < 3:
            out |= _deep_values(cg, cg.get(("elem", v)), depth + 1)
        else:
            out.add(v)
    return out


def teardown_targets(p):
    """Functions that tear a connection down or change the polled set."""
    out = {}
    disp = p.cls("wasyncore.dispatcher")
    for c in [disp] + disp.all_subclasses():
        for name in ("close", "handle_close", "add_channel", "del_channel", "_close"):
            if name in c.methods:
                out[c.methods[name].qual] = name
    if "wasyncore.close_all" in p.functions:
        out["wasyncore.close_all"] = "close_all"
    return out


def rule_r1(ctx, rid="C13.R1"):
    ctx.r.rule(rid, "no worker / application-callback path reaches a teardown primitive (close, handle_close, add/del_channel)")
    p = ctx.p
    w = worker_role(ctx)
    tgt = teardown_targets(p)
    ctx.r.floor(rid, len(tgt), 8, "teardown primitives")
    ctx.r.floor(rid, len(w.funcs), 40, "functions reachable on the worker role")
    ctx.r.note("worker_role_functions", sorted(w.funcs))
    ctx.r.note("worker_escaping_callbacks", w.escaping)
    reported = set()
    for q, kind in sorted(tgt.items()):
        keys = w.reaches(q)
        if not keys:
            ctx.r.ok(rid, "worker role cannot reach %s" % q)
            continue
        for k in keys:
            chain = w.chain(k)
            # the construct: the first edge on the chain that belongs to no teardown function yet
            first = None
            kk = k
            path = []
            while kk is not None:
                path.append(kk)
                kk = w.states[kk][1]
            path.reverse()
            for i, st in enumerate(path):
                if st[0] in tgt:
                    first = (path[i - 1][0] if i else "?", st[0])
                    break
            # name the worker-side origin: the last function before the flush machinery with a closing context
            origin = None
            for i, st in enumerate(path):
                if any(pn == "do_close" and val is True for (pn, val) in st[2]):
                    origin = (path[i - 1][0], st[0])
                    break
            if origin is None:
                origin = first
            key = "worker-teardown::%s->%s" % origin
            if key in reported:
                continue
            reported.add(key)
            ctx.r.violation(rid, key,
                            "a worker thread can reach %s (%s): %s calls %s with a closing context" % (q, kind, origin[0], origin[1]),
                            p.functions[origin[0]].loc() if origin[0] in p.functions else "",
                            {"call_chain": chain})


def rule_r2(ctx, rid="C13.R2"):
    ctx.r.rule(rid, "every dispatcher event method called from the poll functions is under a catch-all that calls handle_error and re-raises only the control exceptions")
    p = ctx.p
    n = 0
    for q in ("wasyncore.read", "wasyncore.write", "wasyncore._exception", "wasyncore.readwrite"):
        f = p.func(q)
        g = cfg_of(f)
        obj = f.params[0]
        for node, c in find_calls(g, lambda c: isinstance(c.func, ast.Attribute) and isinstance(c.func.value, ast.Name)
                                  and c.func.value.id == obj and c.func.attr.startswith("handle_") and c.func.attr != "handle_error"):
            hs = enclosing_handlers(g, node)
            inhandler = any(isinstance(x, ast.ExceptHandler) and any(y is c for y in ast.walk(x)) for x in ast.walk(f.node))
            if inhandler:
                continue  # the close/err calls inside the handlers themselves
            n += 1
            ok = False
            if hs:
                inner = hs[0]
                bare = [h for h in inner if h.ast.type is None or "BaseException" in (handler_names(h.ast) or [])]
                if bare:
                    calls_err = any(isinstance(x, ast.Call) and isinstance(x.func, ast.Attribute) and x.func.attr in ("handle_error", "handle_close")
                                    for x in ast.walk(bare[0].ast))
                    ok = calls_err and handler_behaviour(g, bare[0]) == "swallow"
            if ok:
                ctx.r.ok(rid, "%s in %s is under the catch-all" % (norm(c), q), f.loc(node.ast))
            else:
                ctx.r.violation(rid, key_of(f, c, "uncontained-event"), "%s is not inside a catch-all handler that calls handle_error" % norm(c), f.loc(node.ast))
    ctx.r.floor(rid, n, 7, "event-method call sites in the poll helpers")
    # the poll functions call the helpers, not the events directly
    for q in ("wasyncore.poll", "wasyncore.poll2"):
        f = p.func(q)
        g = cfg_of(f)
        direct = find_calls(g, lambda c: isinstance(c.func, ast.Attribute) and c.func.attr.startswith("handle_"))
        for node, c in direct:
            ctx.r.violation(rid, key_of(f, c, "direct-event"), "%s calls %s outside the containment helpers" % (q, norm(c)), f.loc(node.ast))
        if not direct:
            ctx.r.ok(rid, "%s dispatches events only through the contained helpers" % q, f.loc())


def _catches_oserror_and_stays(p, f, g, node):
    """node's exception (OSError) is caught in f by a handler that does not re-raise and does not close self."""
    for handlers in enclosing_handlers(g, node):
        for h in handlers:
            if handler_catches(p, f, h.ast, "OSError"):
                beh = handler_behaviour(g, h)
                closes = any(isinstance(x, ast.Call) and isinstance(x.func, ast.Attribute) and x.func.attr in ("handle_error", "handle_close", "close")
                             and dotted(x.func.value) == "self" for x in ast.walk(h.ast))
                return beh == "swallow" and not closes
    return False


def rule_r3(ctx, rid="C13.R3"):
    ctx.r.rule(rid, "in the listener's handle_accept every statement that touches the accepted socket is inside the try whose OSError handler keeps the listener open")
    p = ctx.p
    cg = get_callgraph(p)
    f = p.func("server.BaseWSGIServer.handle_accept")
    g = cfg_of(f)
    # variables bound from the accept() result
    accept_nodes = find_calls(g, lambda c: isinstance(c.func, ast.Attribute) and c.func.attr == "accept")
    if not accept_nodes:
        raise AnalysisError("no accept() call in handle_accept")
    tainted = set()
    for node, c in accept_nodes:
        if isinstance(node.ast, ast.Assign):
            for t in node.ast.targets:
                tainted |= {x.id for x in ast.walk(t) if isinstance(x, ast.Name)}
    changed = True
    while changed:
        changed = False
        for node in g.nodes:
            if node.kind == "stmt" and isinstance(node.ast, ast.Assign):
                used = {x.id for x in ast.walk(node.ast.value) if isinstance(x, ast.Name)}
                if used & tainted:
                    for t in node.ast.targets:
                        for x in ast.walk(t):
                            if isinstance(x, ast.Name) and x.id not in tainted:
                                tainted.add(x.id)
                                changed = True
    sock_vars = set(tainted)
    n = 0
    for node in cfg_nodes_with_ast(g):
        if node.kind != "stmt":
            continue
        calls = [c for root in node_exprs(node) for c in calls_in(root)]
        touching = []
        for c in calls:
            args = list(c.args) + [k.value for k in c.keywords]
            names = {x.id for a in args for x in ast.walk(a) if isinstance(x, ast.Name)}
            if isinstance(c.func, ast.Attribute):
                names |= {x.id for x in ast.walk(c.func.value) if isinstance(x, ast.Name)}
            if names & sock_vars or (isinstance(c.func, ast.Attribute) and c.func.attr == "accept"):
                touching.append(c)
        for c in touching:
            # does the callee (transitively, constructor chain) perform socket operations?
            s = cg.site_of(c)
            does_io = True
            if s is not None and s.targets:
                does_io = _reaches_socket_ops(cg, s.targets)
            if not does_io:
                continue
            n += 1
            if _catches_oserror_and_stays(p, f, g, node):
                ctx.r.ok(rid, "%s is inside the OSError-handling try" % norm(c)[:70], f.loc(node.ast))
            else:
                ctx.r.violation(rid, key_of(f, None, "outside-try::" + norm(c.func)),
                                "%s performs socket calls on the accepted connection outside the try: an OSError reaches the listener's handle_error and closes the listening socket" % norm(c)[:80],
                                f.loc(node.ast))
    ctx.r.floor(rid, n, 3, "statements touching the accepted socket")


def _reaches_socket_ops(cg, targets):
    """Some function reachable from targets calls a method on an opaque (socket) object
    named like a socket operation."""
    ops = {"getsockopt", "setsockopt", "setblocking", "fileno", "accept", "getpeername", "settimeout"}
    seen = cg.reachable(list(targets))
    for q in seen:
        f = cg.p.functions[q]
        for s in cg.sites_in(f):
            if isinstance(s.node, ast.Call) and isinstance(s.node.func, ast.Attribute) and s.node.func.attr in ops and not s.targets:
                return True
    return False


def rule_r4(ctx):
    rid = "C13.R4"
    ctx.r.rule(rid, "errno tables: _DISCONNECTED covers the disconnect errnos; send maps EWOULDBLOCK/disconnects to 0 (closing only if do_close); recv maps disconnects to close + b''; both re-raise anything else")
    p = ctx.p
    tbl = p.const("wasyncore", "_DISCONNECTED")
    names = {s.name.split(".")[-1] for s in tbl if isinstance(s, Sym)}
    missing = REQUIRED_ERRNOS - names
    if missing:
        ctx.r.violation(rid, "errno-table::missing::" + ",".join(sorted(missing)), "_DISCONNECTED lacks %s" % sorted(missing), "src/waitress/wasyncore.py")
    else:
        ctx.r.ok(rid, "_DISCONNECTED contains %s" % sorted(REQUIRED_ERRNOS), "src/waitress/wasyncore.py")
    for q, need_close in (("wasyncore.dispatcher.send", False), ("wasyncore.dispatcher.recv", True)):
        f = p.func(q)
        g = cfg_of(f)
        # the branch guarded by  <errno> in _DISCONNECTED
        br = []
        for n in g.nodes:
            if n.kind == "branch" and n.polarity and isinstance(n.ast, ast.Compare) and isinstance(n.ast.ops[0], ast.In):
                try:
                    v = p.fold(n.ast.comparators[0], f.module)
                except NotConst:
                    continue
                if isinstance(v, frozenset) and {s.name.split(".")[-1] for s in v if isinstance(s, Sym)} >= REQUIRED_ERRNOS:
                    br.append(n)
        if not br:
            ctx.r.violation(rid, key_of(f, None, "no-disconnect-branch"), "%s has no branch testing the error against the disconnect table" % q, f.loc())
            continue
        for b in br:
            reach = g.reach(b)
            if g.raise_exit.id in {s.id for n2 in g.nodes if n2.id in reach and n2.kind == "stmt" and isinstance(n2.ast, ast.Raise) for (s, _) in n2.succ} and False:
                pass
            raises = [n2 for n2 in g.nodes if n2.id in reach and n2.kind == "stmt" and isinstance(n2.ast, ast.Raise)]
            if raises:
                ctx.r.violation(rid, key_of(f, None, "disconnect-raises"), "%s re-raises a disconnect errno" % q, f.loc(b.ast))
            else:
                ctx.r.ok(rid, "%s: disconnect errnos do not propagate" % q, f.loc(b.ast))
            closes = [n2 for n2 in g.nodes if n2.id in reach and n2.kind == "stmt" and any(
                isinstance(c, ast.Call) and isinstance(c.func, ast.Attribute) and c.func.attr == "handle_close" for c in ast.walk(n2.ast))]
            if need_close:
                if closes and all(g.dominates(b, c) for c in closes):
                    # every path from the branch passes a close
                    if g.path(b, g.exit, avoid=closes) is None:
                        ctx.r.ok(rid, "%s closes on a disconnect errno" % q, f.loc(b.ast))
                    else:
                        ctx.r.violation(rid, key_of(f, None, "disconnect-no-close"), "%s can return from a disconnect without closing" % q, f.loc(b.ast))
                else:
                    ctx.r.violation(rid, key_of(f, None, "disconnect-no-close"), "%s does not close on a disconnect errno" % q, f.loc(b.ast))
            else:
                # send: a close under the disconnect branch must be guarded by do_close
                for c in closes:
                    gs = [(norm(t), pol) for (t, pol, _) in g.guards(c)]
                    if ("do_close", True) in gs:
                        ctx.r.ok(rid, "send closes on disconnect only under do_close", f.loc(c.ast))
                    else:
                        ctx.r.violation(rid, key_of(f, None, "unconditional-close-in-send"), "send closes the channel on a disconnect regardless of do_close", f.loc(c.ast))
        # anything else is re-raised: the handler must contain a bare raise on the path where no table matched
        hn = [n for n in g.nodes if n.kind == "handler" and handler_catches(p, f, n.ast, "OSError")]
        ok = False
        for h in hn:
            for n2 in g.nodes:
                if n2.kind == "stmt" and isinstance(n2.ast, ast.Raise) and n2.ast.exc is None and any(x is n2.ast for x in ast.walk(h.ast)):
                    ok = True
        if ok:
            ctx.r.ok(rid, "%s re-raises errors outside the tables" % q, f.loc())
        else:
            ctx.r.violation(rid, key_of(f, None, "swallows-unknown-errors"), "%s does not re-raise socket errors outside the tables" % q, f.loc())


def rule_r5(ctx, rid="C13.R5"):
    ctx.r.rule(rid, "an OSError re-raised by dispatcher.send/recv always ends in a handler that closes (or marks for closing) the channel")
    p = ctx.p
    n = 0
    for q in ("wasyncore.dispatcher.send", "wasyncore.dispatcher.recv"):
        f = p.func(q)
        g = cfg_of(f)
        for node in g.nodes:
            if node.kind == "stmt" and isinstance(node.ast, ast.Raise) and node.ast.exc is None:
                for t in route(p, f, node, "OSError"):
                    n += 1
                    if t.kind == "passthrough":
                        continue
                    if t.kind == "escape":
                        ctx.r.violation(rid, "oserror-escapes::" + t.func.qual, "a socket error from %s escapes through %s" % (q, t.func.qual), t.func.loc(), {"chain": t.chain})
                        continue
                    h = t.hnode.ast
                    if t.func.cls is not None and any(c.name == "_triggerbase" for c in t.func.cls.mro):
                        # exemption (one reason): the wake-up pipe is not a client connection; EAGAIN on an
                        # already drained pipe is expected and the trigger must stay registered
                        ctx.r.ok(rid, "socket error on the wake-up pipe is ignored by design (%s)" % t.describe(), t.func.loc(h))
                        continue
                    closes = False
                    for x in ast.walk(h):
                        if isinstance(x, ast.Call) and isinstance(x.func, ast.Attribute) and x.func.attr in ("handle_close", "handle_error", "close"):
                            closes = True
                        if isinstance(x, ast.Assign) and any(isinstance(tg, ast.Attribute) and tg.attr in ("will_close", "close_on_finish") for tg in x.targets) \
                                and isinstance(x.value, ast.Constant) and x.value.value is True:
                            closes = True
                    if closes:
                        # ... on every path through the handler that swallows the error (a mark set only under a
                        # logging option leaves the dead connection polled forever)
                        gh = cfg_of(t.func)
                        marks = [x for x in gh.nodes if x.ast is not None and x.kind == "stmt" and any(y is x.ast for y in ast.walk(h)) and (
                            (isinstance(x.ast, ast.Assign) and any(isinstance(tg, ast.Attribute) and tg.attr in ("will_close", "close_on_finish") for tg in x.ast.targets)
                             and isinstance(x.ast.value, ast.Constant) and x.ast.value.value is True)
                            or any(isinstance(y, ast.Call) and isinstance(y.func, ast.Attribute) and y.func.attr in ("handle_close", "handle_error", "close") for y in ast.walk(x.ast)))]
                        hn = [x for x in gh.nodes if x.kind == "handler" and x.ast is h]
                        pth = gh.path(hn[0], gh.exit, avoid=marks, follow_exc=False) if hn else None
                        if pth is not None:
                            closes = False
                            ctx.r.violation(rid, "oserror-mark-conditional::%s::%s" % (t.func.qual, norm(h.type) if h.type else "bare"),
                                            "a socket error from %s is swallowed by %s on a path that does not mark the channel for closing (%s): the failed connection stays in the polled set"
                                            % (q.split(".")[-1], t.func.qual, gh.describe_path(pth)), t.func.loc(h), {"chain": t.chain})
                            continue
                    if closes:
                        ctx.r.ok(rid, "socket error from %s: %s, which closes" % (q.split(".")[-1], t.describe()), t.func.loc(h))
                    else:
                        ctx.r.violation(rid, "oserror-not-closing::%s::%s" % (t.func.qual, norm(h.type) if h.type else "bare"),
                                        "a socket error from %s is %s, which neither closes the channel nor marks it for closing; path: %s"
                                        % (q.split(".")[-1], t.describe(), " <- ".join(reversed(t.chain))), t.func.loc(h), {"chain": t.chain})
    ctx.r.floor(rid, n, 4, "propagation paths of re-raised socket errors")


def rule_r6(ctx, rid="C13.R6"):
    ctx.r.rule(rid, "teardown releases and is idempotent: handle_close closes every buffer under the output lock, zeroes the counter, clears connected, then dispatcher.close; close() guards map removal and socket close")
    p = ctx.p
    lk = get_locks(p)
    f = p.func("channel.HTTPChannel.handle_close")
    g = cfg_of(f)
    # loop over self.outbufs closing each
    loops = [n for n in g.nodes if n.kind == "iter" and dotted(n.ast.iter) == "self.outbufs"]
    ok = False
    for it in loops:
        tv = it.ast.target.id if isinstance(it.ast.target, ast.Name) else None
        closes = [x for x in ast.walk(it.ast) if isinstance(x, ast.Call) and isinstance(x.func, ast.Attribute) and x.func.attr == "close" and dotted(x.func.value) == tv]
        if closes and "HTTPChannel.outbuf_lock" in lk.held_lex(f, it.ast):
            ok = True
    if ok:
        ctx.r.ok(rid, "handle_close closes every output buffer inside the output lock", f.loc())
    else:
        ctx.r.violation(rid, key_of(f, None, "buffers-not-closed"), "handle_close does not close every output buffer under the output lock", f.loc())
    # reaches dispatcher.close on every normal path
    cg = get_callgraph(p)
    closers = [n for n, c in find_calls(g, lambda c: any(t.qual == "wasyncore.dispatcher.close" for t in cg.callees(c)))]
    if closers and g.path(g.entry, g.exit, avoid=closers, follow_exc=False) is None:
        ctx.r.ok(rid, "every normal path of handle_close reaches dispatcher.close", f.loc())
    else:
        ctx.r.violation(rid, key_of(f, None, "no-dispatcher-close"), "handle_close can return without dispatcher.close", f.loc())
    # connected = False stored
    st = [n for n in g.nodes if n.kind == "stmt" and isinstance(n.ast, ast.Assign) and any(dotted(t) == "self.connected" for t in n.ast.targets)
          and isinstance(n.ast.value, ast.Constant) and n.ast.value.value is False]
    if st:
        ctx.r.ok(rid, "handle_close clears connected", f.loc(st[0].ast))
    else:
        ctx.r.violation(rid, key_of(f, None, "connected-not-cleared"), "handle_close does not clear connected", f.loc())
    # dispatcher.close
    f2 = p.func("wasyncore.dispatcher.close")
    g2 = cfg_of(f2)
    sc = find_calls(g2, lambda c: dotted(c.func) == "self.socket.close")
    for n, c in sc:
        gs = [(norm(t), pol) for (t, pol, _) in g2.guards(n)]
        if ("self.socket is not None", True) in gs or ("self.socket is None", False) in gs or ("self.socket", True) in gs:
            ctx.r.ok(rid, "socket.close guarded by a not-None test", f2.loc(n.ast))
        else:
            ctx.r.violation(rid, key_of(f2, None, "socket-close-unguarded"), "dispatcher.close closes the socket without a not-None guard (double close)", f2.loc(n.ast))
    if not sc:
        ctx.r.violation(rid, key_of(f2, None, "no-socket-close"), "dispatcher.close does not close the socket", f2.loc())
    nulls = [n for n in g2.nodes if n.kind == "stmt" and isinstance(n.ast, ast.Assign) and any(dotted(t) == "self.socket" for t in n.ast.targets)
             and isinstance(n.ast.value, ast.Constant) and n.ast.value.value is None]
    if nulls:
        ctx.r.ok(rid, "dispatcher.close forgets the socket after closing", f2.loc(nulls[0].ast))
    else:
        ctx.r.violation(rid, key_of(f2, None, "socket-not-forgotten"), "dispatcher.close keeps the closed socket object", f2.loc())
    dc = find_calls(g2, lambda c: dotted(c.func) == "self.del_channel")
    if dc:
        ctx.r.ok(rid, "dispatcher.close unregisters the descriptor", f2.loc(dc[0][0].ast))
    else:
        ctx.r.violation(rid, key_of(f2, None, "no-del-channel"), "dispatcher.close does not remove the descriptor from the map", f2.loc())
    f3 = p.func("wasyncore.dispatcher.del_channel")
    g3 = cfg_of(f3)
    dels = [n for n in g3.nodes if n.kind == "stmt" and isinstance(n.ast, ast.Delete)]
    for n in dels:
        gs = [(type(t).__name__, pol) for (t, pol, _) in g3.guards(n)]
        if any(isinstance(t, ast.Compare) and isinstance(t.ops[0], ast.In) and pol for (t, pol, _) in g3.guards(n)):
            ctx.r.ok(rid, "map removal guarded by membership", f3.loc(n.ast))
        else:
            ctx.r.violation(rid, key_of(f3, None, "unguarded-del"), "del_channel removes the descriptor without a membership test", f3.loc(n.ast))
    # unregistering twice is harmless (handle_close can run twice in one handle_write: once for the failed send, once
    # for the promoted close_when_flushed)
    dc = p.func("channel.HTTPChannel.del_channel")
    gd = cfg_of(dc)
    dels = [x for x in gd.nodes if x.kind == "stmt" and isinstance(x.ast, ast.Delete) and any(isinstance(t, ast.Subscript) for t in x.ast.targets)]
    for x in dels:
        t = [t for t in x.ast.targets if isinstance(t, ast.Subscript)][0]
        from .common import resolve_locals
        cont, key = norm(t.value), norm(t.slice)
        conts = {cont, norm(resolve_locals(dc, t.value))}
        if any((cmp_fact(tt, pol) or ("",))[0] == "in" and cmp_fact(tt, pol)[1] == key and cmp_fact(tt, pol)[3] is True
               and (cmp_fact(tt, pol)[2] in conts or norm(resolve_locals(dc, tt.comparators[0])) in conts) for (tt, pol) in guards_of(gd, x)):
            ctx.r.ok(rid, "del_channel removes the bookkeeping entry only if it is there (idempotent)", dc.loc(x.ast))
        else:
            ctx.r.violation(rid, key_of(dc, None, "unregister-not-idempotent"), "del_channel deletes %s[%s] without testing membership: a second teardown of the same channel raises KeyError out of the I/O loop" % (cont, key), dc.loc(x.ast))


def rule_r7(ctx):
    rid = "C13.R7"
    ctx.r.rule(rid, "the socket map is mutated only by add_channel / del_channel / close_all")
    p = ctx.p
    cg = get_callgraph(p)
    disp = p.cls("wasyncore.dispatcher")
    mapvals = set()
    for c in [disp] + disp.all_subclasses():
        mapvals |= {v for v in cg.get(("field", c.qual, "_map")) if v[0] == "cont"}
    mapvals |= {v for v in cg.get(("glob", "wasyncore", "socket_map")) if v[0] == "cont"}
    if not mapvals:
        raise AnalysisError("socket map container not found")
    allowed = {"wasyncore.dispatcher.add_channel", "wasyncore.dispatcher.del_channel", "wasyncore.close_all"}
    n = 0
    for f in p.functions.values():
        for node in walk_own(f.node):
            tgt = None
            if isinstance(node, (ast.Assign, ast.Delete)):
                for t in node.targets:
                    if isinstance(t, ast.Subscript):
                        tgt = t.value
            elif isinstance(node, ast.Call) and isinstance(node.func, ast.Attribute) and node.func.attr in ("clear", "pop", "popitem", "update", "setdefault"):
                tgt = node.func.value
            if tgt is None:
                continue
            vals = cg.types_of(f, tgt)
            if vals & mapvals:
                n += 1
                if f.qual in allowed:
                    ctx.r.ok(rid, "socket map mutated in %s" % f.qual, f.loc(node))
                else:
                    ctx.r.violation(rid, key_of(f, None, "map-mutation"), "%s mutates the socket map" % f.qual, f.loc(node))
    ctx.r.floor(rid, n, 3, "socket map mutation sites")


def rule_r8(ctx):
    rid = "C13.R8"
    ctx.r.rule(rid, "channel construction: registering the connection in the socket map is the last fallible step (a setup fault never leaves a half-built channel in the polled set)")
    from ..cfg import expr_may_raise
    p = ctx.p
    cg = get_callgraph(p)
    chan = p.cls("channel.HTTPChannel")
    reg_funcs = {q for q in p.functions if q.endswith(".add_channel")}
    n_checked = 0
    # every function on the construction chain: HTTPChannel.__init__ and what it calls up to add_channel
    init = chan.lookup("__init__")
    chain = cg.reachable([(init, chan)])
    for q in sorted(chain):
        f = p.functions[q]
        if q in reg_funcs and f.cls is not None and f.cls.qual == "wasyncore.dispatcher":
            continue
        g = cfg_of(f)
        regs = []
        for n, c in find_calls(g, lambda c: True):
            tg = cg.callees(c)
            if any(t.qual in reg_funcs or any(r in cg.reachable([t]) for r in reg_funcs) for t in tg):
                regs.append(n)
        for rn in regs:
            n_checked += 1
            after = g.reach(rn, follow_exc=False)
            bad = [m for m in g.nodes if m.id in after and m.kind in ("stmt", "test", "iter", "with_enter") and m.ast is not None and m is not rn
                   and (expr_may_raise(m.ast) if not isinstance(m.ast, (ast.Assign,)) else (expr_may_raise(m.ast.value) or any(isinstance(t, ast.Subscript) and False for t in m.ast.targets)))]
            # stores into a dict keyed by fileno (active_channels[...] = self) are bookkeeping of the registration itself
            bad = [m for m in bad if not (isinstance(m.ast, ast.Assign) and isinstance(m.ast.value, ast.Name))]
            if bad:
                ctx.r.violation(rid, key_of(f, None, "fallible-after-registration::" + norm(bad[0].ast)[:50]),
                                "%s: %s can fail after the channel was registered in the socket map: the half-built channel stays polled and its next event raises outside any handler"
                                % (f.qual, norm(bad[0].ast)[:60]), f.loc(bad[0].ast))
            else:
                ctx.r.ok(rid, "%s: nothing fallible after the registering call %s" % (f.name, norm(rn.ast)[:50]), f.loc(rn.ast))
    ctx.r.floor(rid, n_checked, 2, "registering calls on the construction chain")


def rule_r9(ctx):
    rid = "C13.R9"
    ctx.r.rule(rid, "poll passes tolerate descriptors unregistered by an earlier handler of the same pass: the socket map is only read through .get() and the result is tested for None before it is dispatched")
    p = ctx.p
    n = 0
    for q in ("wasyncore.poll", "wasyncore.poll2"):
        f = p.func(q)
        g = cfg_of(f)
        mp = "map" if "map" in f.params else None
        if mp is None:
            raise AnalysisError("%s has no map parameter" % q)
        # (a) no map[fd] lookups (KeyError escapes poll -> loop -> run: the I/O loop dies for every connection)
        for node in g.nodes:
            if node.ast is None or node.kind not in ("stmt", "test", "iter"):
                continue
            root = node.ast.iter if node.kind == "iter" else node.ast
            for x in ast.walk(root):
                if isinstance(x, ast.Subscript) and isinstance(x.ctx, ast.Load) and dotted(x.value) == mp:
                    ctx.r.violation(rid, key_of(f, None, "map-subscript"), "%s looks a descriptor up with %s: a channel closed by an earlier handler in the same pass raises KeyError out of the I/O loop" % (q, norm(x)), f.loc(x))
        # (b) dispatch calls get a value that was tested for None
        gets = {}
        for node in g.nodes:
            if node.kind == "stmt" and isinstance(node.ast, ast.Assign) and isinstance(node.ast.value, ast.Call) and dotted(node.ast.value.func) == mp + ".get" \
                    and isinstance(node.ast.targets[0], ast.Name):
                gets[node.ast.targets[0].id] = node
        # every call that is handed a looked-up channel (read(obj), handler(obj), readwrite(obj, flags), ...)
        def hands_over(c):
            if not c.args:
                return False
            a0 = c.args[0]
            if isinstance(c.func, ast.Name) and c.func.id in ("read", "write", "_exception", "readwrite"):
                return True
            return (isinstance(a0, ast.Name) and a0.id in gets) or (isinstance(a0, ast.Call) and dotted(a0.func) == mp + ".get") \
                or (isinstance(a0, ast.Subscript) and dotted(a0.value) == mp)
        for node, c in find_calls(g, hands_over):
            a0 = c.args[0]
            n += 1
            if isinstance(a0, ast.Name) and a0.id in gets:
                if any(cmp_fact(t, pol) == ("is", a0.id, "None", False) for (t, pol) in guards_of(g, node)):
                    ctx.r.ok(rid, "%s(%s) only for a descriptor still registered" % (norm(c.func), a0.id), f.loc(node.ast))
                else:
                    ctx.r.violation(rid, key_of(f, None, "dispatch-none::" + norm(c.func)), "%s dispatches %s(%s) without testing the lookup for None" % (q, norm(c.func), a0.id), f.loc(node.ast))
            elif isinstance(a0, ast.Call) and dotted(a0.func) == mp + ".get":
                ctx.r.violation(rid, key_of(f, None, "dispatch-none::" + norm(c.func)), "%s dispatches %s on an untested lookup" % (q, norm(c.func)), f.loc(node.ast))
            elif isinstance(a0, ast.Subscript):
                pass  # reported under (a)
            else:
                ctx.r.violation(rid, key_of(f, None, "dispatch-source::" + norm(c.func)), "%s dispatches %s(%s): not a tested map.get() result" % (q, norm(c.func), norm(a0)), f.loc(node.ast))
    ctx.r.floor(rid, n, 2, "dispatch calls in the poll passes")


def rule_r10(ctx, rid="C13.R10"):
    ctx.r.rule(rid, "no lock is leaked: a lock taken with an explicit acquire() is released on every way out of the acquiring function, exceptional ones included (a send error in the I/O thread's flush must not leave the output lock held: the worker would block forever)")
    from ..locks import get_locks
    p = ctx.p
    lk = get_locks(p)
    n = 0
    for f in sorted(p.functions.values(), key=lambda f: f.qual):
        if not any(isinstance(x, ast.Call) and isinstance(x.func, ast.Attribute) and x.func.attr == "acquire" and lk.table.resolve(f, x.func.value, lk.cg) for x in ast.walk(f.node)):
            continue
        n += 1
        lks = lk.leaks(f)
        if not lks:
            ctx.r.ok(rid, "%s releases what it acquires on every exit" % f.qual, f.loc())
        seen = set()
        for (lid, kind, node) in lks:
            if (lid, kind) in seen:
                continue
            seen.add((lid, kind))
            ctx.r.violation(rid, key_of(f, None, "lock-leaked::%s::%s" % (lid, kind)),
                            "%s can be left by %s with %s still held (acquired at line %s): every later user of the lock blocks forever" % (f.qual, kind, lid, getattr(node.ast, "lineno", "?")), f.loc(node.ast))
    ctx.r.floor(rid, n, 1, "functions using explicit acquire()")


def rule_r11(ctx):
    """Shared with C12.R3 (teardown wakes a paused worker: otherwise the worker is lost to the pool and other connections
    starve) and C12.R8 (the I/O thread's flush closes on a disconnect errno: otherwise the faulted connection is never torn
    down and stays in the polled set)."""
    from . import c12
    c12.rule_r3(ctx, rid="C13.R11")
    c12.rule_r8(ctx, rid="C13.R11")


def rule_r12(ctx):
    """Shared with C09.R1: a file handed to the channel is closed exactly once even when the connection is torn down between the head and the hand-over (ownership flips right after write_soon returned, never before)."""
    from . import c09
    c09.rule_r1(ctx, rid="C13.R12")


def rule_r13(ctx, rid="C13.R13"):
    ctx.r.rule(rid, "every socket the loop manages is non-blocking: dispatcher.__init__ calls setblocking(0 / False) on the socket it is given before registering it (an accepted socket does not inherit the mode; on a blocking socket the send made on behalf of a client that stopped reading blocks the worker under the output lock, or the I/O thread and with it every connection)")
    p = ctx.p
    f = p.func("wasyncore.dispatcher.__init__")
    g = cfg_of(f)
    sock = f.params[1] if len(f.params) > 1 else None
    nb = [n for n, c in find_calls(g, lambda c: isinstance(c.func, ast.Attribute) and c.func.attr == "setblocking" and dotted(c.func.value) == sock and c.args
                                   and isinstance(c.args[0], ast.Constant) and c.args[0].value in (0, False))]
    reg = [n for n, c in find_calls(g, lambda c: dotted(c.func) in ("self.set_socket", "self.add_channel"))]
    if not reg:
        raise AnalysisError("anchor vanished: dispatcher.__init__ registering its socket")
    for r in reg:
        if nb and g.path(g.entry, r, avoid=nb, follow_exc=False) is None:
            ctx.r.ok(rid, "the socket is made non-blocking before %s" % norm(r.ast)[:40], f.loc(r.ast))
        else:
            ctx.r.violation(rid, key_of(f, None, "socket-left-blocking"), "dispatcher.__init__ can register the socket (%s) without having called %s.setblocking(0): a connection whose peer stops reading blocks the thread that sends to it" % (norm(r.ast)[:40], sock), f.loc(r.ast))


RULES = [rule_r1, rule_r2, rule_r3, rule_r4, rule_r5, rule_r6, rule_r7, rule_r8, rule_r9, rule_r10, rule_r11, rule_r12, rule_r13]


from ..selftest import M, T, V  # noqa: E402

selftest = [
    M("write_soon-do_close", "channel.py", "self._flush_some, do_close=False\n                    )", "self._flush_some, do_close=True\n                    )", "R1"),
    M("watermark-flush-default-close", "channel.py", "_, exception = self._flush_exception(self._flush_some, do_close=False)", "_, exception = self._flush_exception(self._flush_some)", "R1"),
    M("continue-flush-default-close", "channel.py", "self.sent_continue = True\n            self._flush_exception(self._flush_some, do_close=False)", "self.sent_continue = True\n            self._flush_some()", "R1"),
    M("worker-handle_close", "channel.py", "            self.logger.info(\"Client disconnected while serving %s\" % task.request.path)\n            task.close_on_finish = True", "            self.handle_close()\n            task.close_on_finish = True", "R1"),
    M("task-closes-channel", "task.py", "            self.close_on_finish = True\n            if self.channel.adj.log_socket_errors:", "            self.close_on_finish = True\n            self.channel.close()\n            if self.channel.adj.log_socket_errors:", "R1"),
    V("accept-construct-after", "mutant", [("server.py", "            addr = self.fix_addr(addr)\n            self.channel_class(self, conn, addr, self.adj, map=self._map)\n", ""), ("server.py", "                self.logger.warning(\"server accept() threw an exception\", exc_info=True)\n            return\n", "                self.logger.warning(\"server accept() threw an exception\", exc_info=True)\n            return\n        addr = self.fix_addr(addr)\n        self.channel_class(self, conn, addr, self.adj, map=self._map)\n")], "R3"),
    M("epipe-dropped", "wasyncore.py", "ECONNABORTED, EPIPE, EBADF})", "ECONNABORTED, EBADF})", "R4"),
    M("read-catchall-narrowed", "wasyncore.py", "        obj.handle_read_event()\n    except _reraised_exceptions:\n        raise\n    except:\n", "        obj.handle_read_event()\n    except _reraised_exceptions:\n        raise\n    except OSError:\n", "R2"),
    M("send-closes-always", "wasyncore.py", "                if do_close:\n                    self.handle_close()", "                self.handle_close()", None),
    M("recv-no-close", "wasyncore.py", "            if why.args[0] in _DISCONNECTED:\n                self.handle_close()\n                return b\"\"", "            if why.args[0] in _DISCONNECTED:\n                return b\"\"", "R4"),
    M("send-swallows-all", "wasyncore.py", "                return 0\n            else:\n                raise\n\n    def recv", "                return 0\n            else:\n                return 0\n\n    def recv", "R4"),
    M("buffers-not-closed", "channel.py", "            for outbuf in self.outbufs:\n                try:\n                    outbuf.close()", "            for outbuf in []:\n                try:\n                    outbuf.close()", "R6"),
    M("socket-not-forgotten", "wasyncore.py", "                    raise\n\n            self.socket = None", "                    raise\n", "R6"),
    M("flush-exception-no-mark", "channel.py", "                    self.logger.exception(\"Socket error\")\n                self.will_close = True\n\n                return (False, True)\n            except Exception:", "                    self.logger.exception(\"Socket error\")\n\n                return (False, True)\n            except Exception:", "R5"),
    M("map-mutation-elsewhere", "channel.py", "        self.requests = []\n\n    def check_client_disconnected", "        self.requests = []\n        self._map.pop(sock.fileno(), None)\n\n    def check_client_disconnected", "R7"),
    T("handle_read-no-handler-still-contained-by-loop", "channel.py", "        try:\n            data = self.recv(self.adj.recv_bytes)\n        except OSError:\n            if self.adj.log_socket_errors:\n                self.logger.exception(\"Socket error\")\n            self.handle_close()\n\n            return\n", "        data = self.recv(self.adj.recv_bytes)\n"),
    V("sockopt-moved-after-registration", "mutant", [("channel.py", "        self.sendbuf_len = sock.getsockopt(socket.SOL_SOCKET, socket.SO_SNDBUF)\n", ""), ("channel.py", "        wasyncore.dispatcher.__init__(self, sock, map=map)\n", "        wasyncore.dispatcher.__init__(self, sock, map=map)\n        self.sendbuf_len = self.socket.getsockopt(socket.SOL_SOCKET, socket.SO_SNDBUF)\n")], "R8"),
    T("do_close-positional", "channel.py", "_, exception = self._flush_exception(self._flush_some, do_close=False)", "_, exception = self._flush_exception(self._flush_some, False)"),
    T("errno-added", "wasyncore.py", "ECONNABORTED, EPIPE, EBADF})", "ECONNABORTED, EPIPE, EBADF, EINTR})"),
    T("construct-own-try", "server.py", "            addr = self.fix_addr(addr)\n            self.channel_class(self, conn, addr, self.adj, map=self._map)\n", "            addr = self.fix_addr(addr)\n            try:\n                self.channel_class(self, conn, addr, self.adj, map=self._map)\n            except OSError:\n                return\n"),
    T("handle_close-acquire-release", "channel.py", "        with self.outbuf_lock:\n            for outbuf in self.outbufs:\n                try:\n                    outbuf.close()\n                except Exception:\n                    self.logger.exception(\n                        \"Unknown exception while trying to close outbuf\"\n                    )\n            self.total_outbufs_len = 0\n            self.connected = False\n            self.outbuf_lock.notify()\n", "        self.outbuf_lock.acquire()\n        try:\n            for outbuf in self.outbufs:\n                try:\n                    outbuf.close()\n                except Exception:\n                    self.logger.exception(\n                        \"Unknown exception while trying to close outbuf\"\n                    )\n            self.total_outbufs_len = 0\n            self.connected = False\n            self.outbuf_lock.notify()\n        finally:\n            self.outbuf_lock.release()\n"),
    T("socket-guard-truthy", "wasyncore.py", "        if self.socket is not None:\n            try:\n                self.socket.close()", "        if self.socket:\n            try:\n                self.socket.close()"),
]
