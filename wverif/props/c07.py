"""C07 — the WSGI environ is the PEP 3333 image of the request."""
from __future__ import annotations

import ast

from ..cfg import cfg_of
from ..excflow import primitive_sites
from ..model import AnalysisError, NotConst, dotted, norm, walk_own
from .common import cmp_fact, find_calls, guards_of, key_of, resolve_locals, str_template, template_text, text_matches

EXPLANATION = (
    "Static dominance / def-use / table checks of the translation request -> environ: underscore names never reach the "
    "header map (shared C01.R3); values lose only SP/HTAB and repeated fields are appended to the existing entry with "
    "the constant ', '; every bytes<->str conversion of client data in the parser uses latin-1; no client header can "
    "replace a server variable (the client-header store is guarded by 'key not in environ', the server dict is built "
    "before the loop, client keys are 'HTTP_' + name except the folded rename targets CONTENT_LENGTH/CONTENT_TYPE, no "
    "server key starts with HTTP_); chunked bodies: Transfer-Encoding is removed and CONTENT_LENGTH is str(len(R)) of "
    "the very receiver whose buffer becomes wsgi.input; percent-decoding is applied only to the path component and "
    "after splitting; the literal key set contains PEP 3333's required variables, each bound to the request field of "
    "the same meaning. Equality with a reference translation for all requests and the url_prefix string arithmetic are "
    "not decided."
)

REQUIRED = {"REQUEST_METHOD", "SCRIPT_NAME", "PATH_INFO", "QUERY_STRING", "SERVER_NAME", "SERVER_PORT", "SERVER_PROTOCOL",
            "wsgi.version", "wsgi.url_scheme", "wsgi.input", "wsgi.errors", "wsgi.multithread", "wsgi.multiprocess", "wsgi.run_once"}


def rule_r1(ctx):
    from .c01 import rule_r3, rule_r5
    rule_r3(ctx, rid="C07.R1")
    rule_r5(ctx, rid="C07.R2a")


def rule_r2(ctx):
    rid = "C07.R2"
    ctx.r.rule(rid, "repeated fields are merged by appending ', ' + value to the existing entry (arrival order); first occurrence stored as is")
    p = ctx.p
    f = p.func("parser.HTTPRequestParser.parse_header")
    g = cfg_of(f)
    aug = [n for n in g.nodes if n.kind == "stmt" and isinstance(n.ast, ast.AugAssign) and isinstance(n.ast.target, ast.Subscript) and dotted(n.ast.target.value) == "headers"]
    asg = [n for n in g.nodes if n.kind == "stmt" and isinstance(n.ast, ast.Assign) and isinstance(n.ast.targets[0], ast.Subscript) and dotted(n.ast.targets[0].value) == "headers"]
    if not aug or not asg:
        ctx.r.violation(rid, key_of(f, None, "merge-shape"), "the header map is not filled by 'append to existing, else assign'", f.loc())
        return
    a = aug[0].ast
    txt = norm(a.value)
    consts = [c.value for c in ast.walk(a.value) if isinstance(c, ast.Constant) and isinstance(c.value, (bytes, str)) and c.value not in ("latin-1",)]
    names = [x.id for x in ast.walk(a.value) if isinstance(x, ast.Name)]
    # order: constant first, then the value
    flat = []

    def rec(e):
        if isinstance(e, ast.BinOp) and isinstance(e.op, ast.Add):
            rec(e.left)
            rec(e.right)
        elif isinstance(e, ast.Call) and isinstance(e.func, ast.Attribute) and e.func.attr in ("decode", "encode"):
            rec(e.func.value)
        else:
            flat.append(e)
    rec(a.value)
    def is_value(e):
        """the field value as parsed (a local standing for its stripped / decoded form included)"""
        for _ in range(4):
            while isinstance(e, ast.Call) and isinstance(e.func, ast.Attribute) and e.func.attr in ("decode", "encode"):
                e = e.func.value
            if isinstance(e, ast.Call) and isinstance(e.func, ast.Attribute) and e.func.attr == "strip" and len(e.args) == 1 and isinstance(e.args[0], ast.Constant) and e.args[0].value in (b" \t", b"\t ", " \t", "\t "):
                e = e.func.value
            if isinstance(e, ast.Name) and e.id != "value":
                r = resolve_locals(f, e)
                if r is None or r is e:
                    return False
                e = r
                continue
            break
        return dotted(e) == "value"
    shape = [("SEP" if isinstance(x, ast.Constant) and x.value in (b", ", ", ") else ("VALUE" if is_value(x) else norm(x))) for x in flat]
    if isinstance(a.op, ast.Add) and shape == ["SEP", "VALUE"]:
        ctx.r.ok(rid, "existing entry += ', ' + value", f.loc(a))
    else:
        ctx.r.violation(rid, key_of(f, None, "merge-expression"), "repeated fields are merged as %s %s= %s (expected existing += ', ' + value)" % (norm(a.target), type(a.op).__name__, txt), f.loc(a))
    first = asg[0].ast
    rec2 = []

    def strip_codec(e):
        while isinstance(e, ast.Call) and isinstance(e.func, ast.Attribute) and e.func.attr in ("decode", "encode"):
            e = e.func.value
        return e
    if is_value(first.value):
        ctx.r.ok(rid, "first occurrence stored unchanged", f.loc(first))
    else:
        ctx.r.violation(rid, key_of(f, None, "first-store"), "the first occurrence of a field is stored as %s" % norm(first.value), f.loc(first))
    # both use the same key, and the assign is the KeyError fallback of the append
    if norm(a.target.slice) == norm(first.targets[0].slice):
        ctx.r.ok(rid, "same key for merge and first store", f.loc(first))
    else:
        ctx.r.violation(rid, key_of(f, None, "merge-key"), "merge and first store use different keys", f.loc(first))
    # the key: upper-cased name with '-' -> '_'
    kd = [n for n in walk_own(f.node) if isinstance(n, ast.Assign) and dotted(n.targets[0]) == norm(a.target.slice)]
    if kd and ".upper()" in norm(kd[0].value) and "replace(b'-', b'_')" in norm(kd[0].value):
        ctx.r.ok(rid, "CGI name = upper-cased field name with '-' -> '_'", f.loc(kd[0]))
    else:
        ctx.r.violation(rid, key_of(f, None, "cgi-name"), "the map key is not the upper-cased field name with dashes replaced", f.loc())


def rule_r3(ctx):
    rid = "C07.R3"
    ctx.r.rule(rid, "every bytes<->str conversion of client data in parser.py uses latin-1")
    p = ctx.p
    n = 0
    for f in p.functions.values():
        if f.module.name != "parser":
            continue
        bad = [(node, exc, desc) for (node, exc, desc, info) in primitive_sites(p, f) if info["kind"] in ("decode", "encode")]
        for (node, exc, desc) in bad:
            ctx.r.violation(rid, key_of(f, None, "codec::" + desc[:40]), "%s: a non latin-1 conversion of client data (%s)" % (f.qual, desc), f.loc(node.ast))
        for c in ast.walk(f.node):
            if isinstance(c, ast.Call) and ((isinstance(c.func, ast.Attribute) and c.func.attr in ("decode", "encode")) or (dotted(c.func) == "str" and len(c.args) >= 2)):
                n += 1
    if not [v for v in ctx.r.violations if v["rule"] == rid]:
        ctx.r.ok(rid, "all %d conversions in parser.py are latin-1" % n, "src/waitress/parser.py")
    ctx.r.floor(rid, n, 10, "codec conversions in parser.py")


def rule_r4(ctx):
    rid = "C07.R4"
    ctx.r.rule(rid, "no client header replaces a server variable: guarded store, server dict built first, HTTP_ prefix except the rename targets, no server key starts with HTTP_")
    p = ctx.p
    f = p.func("task.WSGITask.get_environment")
    g = cfg_of(f)
    dicts = [n for n in g.nodes if n.kind == "stmt" and isinstance(n.ast, ast.Assign) and isinstance(n.ast.value, ast.Dict) and dotted(n.ast.targets[0]) == "environ"]
    if not dicts:
        raise AnalysisError("get_environment no longer builds the environ dict literal")
    d = dicts[0]
    keys = [k.value for k in d.ast.value.keys if isinstance(k, ast.Constant)]
    if len(keys) != len(d.ast.value.keys):
        ctx.r.violation(rid, key_of(f, None, "nonliteral-key"), "the server-defined environ has non-literal keys", f.loc(d.ast))
    bad = [k for k in keys if str(k).startswith("HTTP_")]
    if bad:
        ctx.r.violation(rid, key_of(f, None, "server-http-key::" + bad[0]), "server-defined key %s lives in the client's HTTP_ namespace" % bad[0], f.loc(d.ast))
    else:
        ctx.r.ok(rid, "no server-defined key starts with HTTP_ (%d keys)" % len(keys), f.loc(d.ast))
    loops = [n for n in g.nodes if n.kind == "iter" and "headers" in norm(n.ast.iter)]
    if not loops:
        raise AnalysisError("get_environment no longer loops over the request headers")
    lp = loops[0]
    if g.dominates(d, lp):
        ctx.r.ok(rid, "server variables are in place before client headers are copied", f.loc(lp.ast))
    else:
        ctx.r.violation(rid, key_of(f, None, "dict-after-loop"), "client headers are copied before the server variables exist", f.loc(lp.ast))
    stores = [n for n in g.nodes if n.kind == "stmt" and isinstance(n.ast, ast.Assign) and isinstance(n.ast.targets[0], ast.Subscript) and dotted(n.ast.targets[0].value) == "environ"]
    in_loop = [n for n in stores if any(x is n.ast for x in ast.walk(lp.ast))]
    after = [n for n in stores if n not in in_loop]
    # environ.setdefault(key, value) is the guarded store in one call
    sd = [(n, c) for n, c in find_calls(g, lambda c: dotted(c.func) == "environ.setdefault" and len(c.args) == 2) if any(x is c for x in ast.walk(lp.ast))]
    for n, c in sd:
        ctx.r.ok(rid, "client header stored with setdefault: never replaces a defined key", f.loc(n.ast))
        _key_derivation(ctx, rid, f, g, lp, norm(c.args[0]), n)
    if not in_loop and not sd:
        ctx.r.violation(rid, key_of(f, None, "no-client-store"), "client headers are never copied into the environ", f.loc(lp.ast))
    for n in in_loop:
        kv = norm(n.ast.targets[0].slice)
        ok = any(cmp_fact(t, pol) == ("in", kv, "environ", False) for (t, pol) in guards_of(g, n)) or \
            any((not pol) and isinstance(t, ast.Compare) and isinstance(t.ops[0], ast.In) and norm(t.left) == kv and dotted(t.comparators[0]) == "environ" for (t, pol) in guards_of(g, n))
        if ok:
            ctx.r.ok(rid, "client header stored only if the key is not already defined", f.loc(n.ast))
        else:
            ctx.r.violation(rid, key_of(f, None, "client-overrides-server"), "a client header is stored without the 'key not in environ' guard: it can replace a server-defined variable", f.loc(n.ast))
        _key_derivation(ctx, rid, f, g, lp, kv, n)
    ren = p.const("task", "rename_headers")
    if isinstance(ren, dict) and set(ren.values()) <= {"CONTENT_LENGTH", "CONTENT_TYPE"} and all(k == v for k, v in ren.items()):
        ctx.r.ok(rid, "rename targets are CONTENT_LENGTH / CONTENT_TYPE only", "src/waitress/task.py")
    else:
        ctx.r.violation(rid, "rename-targets::" + ",".join(sorted(map(str, (ren or {}).values()))), "rename_headers lets client headers write %s" % sorted((ren or {}).values()), "src/waitress/task.py")
    for n in after:
        k = n.ast.targets[0].slice
        if isinstance(k, ast.Constant) and not str(k.value).startswith("HTTP_"):
            ctx.r.ok(rid, "later store uses the literal server key %s" % k.value, f.loc(n.ast))
        else:
            ctx.r.violation(rid, key_of(f, None, "late-store::" + norm(k)), "a store after the header loop uses key %s" % norm(k), f.loc(n.ast))


def _key_derivation(ctx, rid, f, g, lp, kv, n):
    """The environ key of a client header is 'HTTP_' + name, or the rename target when there is one."""
    defs = [m for m in g.nodes if m.kind == "stmt" and isinstance(m.ast, ast.Assign) and dotted(m.ast.targets[0]) == kv and any(x is m.ast for x in ast.walk(lp.ast))]
    pref = [m for m in defs if isinstance(m.ast.value, ast.BinOp) and isinstance(m.ast.value.op, ast.Add) and isinstance(m.ast.value.left, ast.Constant) and m.ast.value.left.value == "HTTP_"]
    ren = [m for m in defs if (isinstance(m.ast.value, ast.Call) and dotted(m.ast.value.func) == "rename_headers.get")
           or (isinstance(m.ast.value, ast.Subscript) and dotted(m.ast.value.value) == "rename_headers")]
    if pref and len(defs) == len(pref) + len(ren):
        ctx.r.ok(rid, "client keys are 'HTTP_' + name (or a rename target)", f.loc(pref[0].ast))
    else:
        ctx.r.violation(rid, key_of(f, None, "client-key-derivation"), "client header keys are derived by %s" % [norm(m.ast.value) for m in defs], f.loc(n.ast))
    for m in pref:
        gs = guards_of(g, m)
        none_guard = any(cmp_fact(t, pol) == ("is", kv, "None", True) for (t, pol) in gs)
        member_guard = any((cmp_fact(t, pol) or ("",))[0] == "in" and cmp_fact(t, pol)[2] == "rename_headers" and cmp_fact(t, pol)[3] is False for (t, pol) in gs)
        # ... or the prefix is applied in the `except KeyError` handler of the try that looks the name up in rename_headers
        handler_guard = False
        for tr in ast.walk(f.node):
            if isinstance(tr, ast.Try) and not tr.orelse and len(tr.body) == 1 and isinstance(tr.body[0], ast.Assign) and isinstance(tr.body[0].value, ast.Subscript) \
                    and dotted(tr.body[0].value.value) == "rename_headers" and dotted(tr.body[0].targets[0]) == kv:
                for h in tr.handlers:
                    if h.type is not None and norm(h.type) == "KeyError" and any(x is m.ast for x in ast.walk(h)):
                        handler_guard = True
        if not (none_guard or member_guard or handler_guard):
            ctx.r.violation(rid, key_of(f, None, "prefix-guard"), "the HTTP_ prefix is not applied exactly when there is no rename target", f.loc(m.ast))


def rule_r5(ctx):
    rid = "C07.R5"
    ctx.r.rule(rid, "chunked bodies: Transfer-Encoding removed; on completion CONTENT_LENGTH = str(len(R)) of the receiver whose buffer is wsgi.input")
    p = ctx.p
    f = p.func("parser.HTTPRequestParser.parse_header")
    g = cfg_of(f)
    pops = [n for n, c in find_calls(g, lambda c: dotted(c.func) == "headers.pop" and c.args and isinstance(c.args[0], ast.Constant) and c.args[0].value == "TRANSFER_ENCODING")]
    sel = [n for n in g.nodes if n.kind == "stmt" and isinstance(n.ast, ast.Assign) and any(dotted(t) == "self.chunked" for t in n.ast.targets)]
    if pops and sel and all(g.dominates(pops[0], s) for s in sel):
        ctx.r.ok(rid, "TRANSFER_ENCODING is popped before chunked decoding is selected", f.loc(pops[0].ast))
    else:
        ctx.r.violation(rid, key_of(f, None, "te-kept"), "a chunked request keeps its Transfer-Encoding header in the environ (HTTP_TRANSFER_ENCODING) although the body is delivered decoded", f.loc())
    r = p.func("parser.HTTPRequestParser.received")
    gr = cfg_of(r)
    st = [n for n in gr.nodes if n.kind == "stmt" and isinstance(n.ast, ast.Assign) and isinstance(n.ast.targets[0], ast.Subscript) and norm(n.ast.targets[0]) == "self.headers['CONTENT_LENGTH']"]
    if not st:
        ctx.r.violation(rid, key_of(r, None, "no-cl-rewrite"), "a decoded chunked body is delivered without CONTENT_LENGTH", r.loc())
    for n in st:
        v = n.ast.value
        recv = None
        if isinstance(v, ast.Call) and dotted(v.func) == "str" and len(v.args) == 1:
            a = v.args[0]
            if isinstance(a, ast.Call) and isinstance(a.func, ast.Attribute) and a.func.attr == "__len__":
                recv = dotted(a.func.value)
            elif isinstance(a, ast.Call) and dotted(a.func) == "len":
                recv = dotted(a.args[0])
        br = [m for m in walk_own(r.node) if isinstance(m, ast.Assign) and dotted(m.targets[0]) == recv and dotted(m.value) == "self.body_rcv"] if recv else []
        if recv and (recv == "self.body_rcv" or br):
            ctx.r.ok(rid, "CONTENT_LENGTH = str(len(body receiver))", r.loc(n.ast))
        else:
            ctx.r.violation(rid, key_of(r, None, "cl-rewrite-value"), "CONTENT_LENGTH of a decoded chunked body is %s" % norm(v), r.loc(n.ast))
        gs = guards_of(gr, n)
        if any(pol and dotted(t) == "self.chunked" for (t, pol) in gs) and any(pol and isinstance(t, ast.Attribute) and t.attr == "completed" for (t, pol) in gs):
            ctx.r.ok(rid, "rewrite happens when the chunked body is complete", r.loc(n.ast))
        else:
            ctx.r.violation(rid, key_of(r, None, "cl-rewrite-guard"), "the CONTENT_LENGTH rewrite is not tied to 'chunked and receiver completed'", r.loc(n.ast))
    gb = p.func("parser.HTTPRequestParser.get_body_stream")
    t = norm(gb.node)
    if "self.body_rcv" in t and ".getfile()" in t:
        ctx.r.ok(rid, "wsgi.input is the file of the same receiver's buffer", gb.loc())
    else:
        ctx.r.violation(rid, key_of(gb, None, "body-stream"), "get_body_stream does not return the body receiver's file", gb.loc())
    for q in ("receiver.ChunkedReceiver.__len__", "receiver.FixedStreamReceiver.__len__"):
        lf = p.func(q)
        if "self.buf" in norm(lf.node):
            ctx.r.ok(rid, "%s reports the buffer's length" % q.split(".")[1], lf.loc())
        else:
            ctx.r.violation(rid, key_of(lf, None, "receiver-len"), "%s does not report the buffered length" % q, lf.loc())
    for q in ("receiver.ChunkedReceiver.getfile", "receiver.FixedStreamReceiver.getfile"):
        lf = p.func(q)
        if "self.buf.getfile()" in norm(lf.node):
            ctx.r.ok(rid, "%s hands out the buffer's file" % q.split(".")[1], lf.loc())
        else:
            ctx.r.violation(rid, key_of(lf, None, "receiver-getfile"), "%s does not return the buffer's file" % q, lf.loc())


def rule_r7(ctx):
    rid = "C07.R7"
    ctx.r.rule(rid, "target mapping: percent-decoding is applied to the path component only, after it was split from query and fragment; the rest is latin-1 decoded verbatim")
    p = ctx.p
    f = p.func("parser.split_uri")
    rets = [n for n in ast.walk(f.node) if isinstance(n, ast.Return) and isinstance(n.value, ast.Tuple)]
    if len(rets) != 1 or len(rets[0].value.elts) != 5:
        raise AnalysisError("split_uri no longer returns the 5-tuple")
    names = ["scheme", "netloc", "path", "query", "fragment"]
    for i, e in enumerate(rets[0].value.elts):
        t = norm(e)
        is_unq = "unquote" in t
        if i == 2:
            if is_unq and dotted(e.args[0]) == "path":
                ctx.r.ok(rid, "path is percent-decoded after splitting", f.loc(e))
            else:
                ctx.r.violation(rid, key_of(f, None, "path-not-decoded"), "the path component is returned as %s" % t, f.loc(e))
        else:
            if is_unq:
                ctx.r.violation(rid, key_of(f, None, "component-decoded::" + names[i]), "%s is percent-decoded (only the path may be): %s" % (names[i], t), f.loc(e))
            elif t == "%s.decode('latin-1')" % names[i]:
                ctx.r.ok(rid, "%s is latin-1 decoded verbatim" % names[i], f.loc(e))
            else:
                ctx.r.violation(rid, key_of(f, None, "component-transformed::" + names[i]), "%s is returned as %s" % (names[i], t), f.loc(e))
    # the generic splitter is urlsplit, bound positionally to the five components (urlparse would cut ';params' off the
    # last path segment; any other arity drops or shifts a component)
    splits = [n for n in ast.walk(f.node) if isinstance(n, ast.Assign) and isinstance(n.value, ast.Call) and (dotted(n.value.func) or "").split(".")[-1] in ("urlsplit", "urlparse", "urldefrag", "SplitResult", "ParseResult")]
    if not splits:
        ctx.r.violation(rid, key_of(f, None, "no-urlsplit"), "split_uri no longer uses urlsplit for targets that do not start with //", f.loc())
    for n in splits:
        fn_ = (dotted(n.value.func) or "").split(".")[-1]
        tg = n.targets[0]
        if isinstance(tg, ast.Name):
            # bound to a local first and unpacked afterwards
            un = [m for m in ast.walk(f.node) if isinstance(m, ast.Assign) and isinstance(m.value, ast.Name) and m.value.id == tg.id and isinstance(m.targets[0], ast.Tuple)]
            if len(un) == 1:
                tg = un[0].targets[0]
        if fn_ == "urlsplit" and isinstance(tg, ast.Tuple) and [dotted(e) for e in tg.elts] == names and len(n.value.args) == 1 and not n.value.keywords:
            ctx.r.ok(rid, "urlsplit(target) bound to (scheme, netloc, path, query, fragment)", f.loc(n))
        else:
            ctx.r.violation(rid, key_of(f, None, "splitter::" + fn_), "the target is split by %s into %s: the path component no longer carries everything between authority and '?' (e.g. ';params' of the last segment are cut off)"
                            % (norm(n.value)[:40], norm(tg)[:60]), f.loc(n))
    # the hand-written branch (targets starting with //) cuts the fragment at the FIRST '#' and the query at the FIRST '?'
    # (everything after the first '?' is the query, further '?' included - RFC 3986 3.4)
    ncut = 0
    for c in ast.walk(f.node):
        if isinstance(c, ast.Call) and isinstance(c.func, ast.Attribute) and c.func.attr in ("split", "rsplit", "partition", "rpartition") and c.args \
                and isinstance(c.args[0], ast.Constant) and c.args[0].value in (b"?", b"#", "?", "#"):
            ncut += 1
            first = c.func.attr == "partition" or (c.func.attr == "split" and len(c.args) == 2 and isinstance(c.args[1], ast.Constant) and c.args[1].value == 1)
            if first:
                ctx.r.ok(rid, "target cut at the first %r" % c.args[0].value, f.loc(c))
            else:
                ctx.r.violation(rid, key_of(f, None, "cut-not-first::%s" % (c.args[0].value if isinstance(c.args[0].value, str) else c.args[0].value.decode())),
                                "the target is cut by %s: not at the first %r - a query that itself contains %r is split in the wrong place (part of it lands in PATH_INFO)" % (norm(c)[:40], c.args[0].value, c.args[0].value), f.loc(c))
    ctx.r.floor(rid, ncut, 2, "hand-written cuts at '#' / '?' in split_uri")
    # no unquote before the split
    for c in ast.walk(f.node):
        if isinstance(c, ast.Call) and "unquote" in (dotted(c.func) or "") and not any(c is e or any(c is x for x in ast.walk(e)) for e in rets[0].value.elts):
            ctx.r.violation(rid, key_of(f, None, "unquote-before-split"), "the URI is percent-decoded before it is split (%%3F / %%23 would create a query or fragment)", f.loc(c))
    uq = p.func("parser.unquote_bytes_to_wsgi")
    if "unquote_to_bytes(bytestring).decode('latin-1')" in norm(uq.node):
        ctx.r.ok(rid, "decoded path bytes become a latin-1 native string", uq.loc())
    else:
        ctx.r.violation(rid, key_of(uq, None, "unquote-helper"), "unquote_bytes_to_wsgi is not unquote_to_bytes(...).decode('latin-1')", uq.loc())
    ph = p.func("parser.HTTPRequestParser.parse_header")
    asg = [n for n in ast.walk(ph.node) if isinstance(n, ast.Assign) and isinstance(n.value, ast.Call) and dotted(n.value.func) == "split_uri"]
    if asg and [dotted(e) for e in asg[0].targets[0].elts] == ["self.proxy_scheme", "self.proxy_netloc", "self.path", "self.query", "self.fragment"] and dotted(asg[0].value.args[0]) == "uri":
        ctx.r.ok(rid, "parse_header binds the five components in order from the request-line target", ph.loc(asg[0]))
    else:
        ctx.r.violation(rid, key_of(ph, None, "split-binding"), "the result of split_uri is not bound to (scheme, netloc, path, query, fragment) of the request target", ph.loc())


def rule_r8(ctx, rid="C07.R8"):
    ctx.r.rule(rid, "required keys: the environ literal contains PEP 3333's required variables, each bound to the request field of the same meaning")
    p = ctx.p
    f = p.func("task.WSGITask.get_environment")
    d = [n for n in ast.walk(f.node) if isinstance(n, ast.Assign) and isinstance(n.value, ast.Dict) and dotted(n.targets[0]) == "environ"]
    if not d:
        raise AnalysisError("environ literal not found")
    kv = {k.value: v for k, v in zip(d[0].value.keys, d[0].value.values) if isinstance(k, ast.Constant)}
    miss = REQUIRED - set(kv)
    if miss:
        ctx.r.violation(rid, "required-keys::" + ",".join(sorted(miss)), "the environ lacks the required %s" % sorted(miss), f.loc(d[0]))
    else:
        ctx.r.ok(rid, "all %d required PEP 3333 keys are present" % len(REQUIRED), f.loc(d[0]))
    want = {
        "REQUEST_METHOD": ("request.command.upper()", "request.command"),
        "QUERY_STRING": ("request.query",),
        "SERVER_PROTOCOL": ("template:HTTP/{self.version}",),
        "wsgi.input": ("request.get_body_stream()",),
        "wsgi.url_scheme": ("request.url_scheme",),
        "PATH_INFO": ("path",),
        "SCRIPT_NAME": ("url_prefix",),
        "REMOTE_ADDR": ("channel.addr[0]",),
        "SERVER_NAME": ("server.server_name",),
        "SERVER_PORT": ("str(server.effective_port)",),
        "REQUEST_URI": ("request.request_uri",),
    }
    for k, alts in want.items():
        if k in kv:
            full = norm(resolve_locals(f, kv[k]))
            if norm(kv[k]) in alts or any(text_matches(full, a) for a in alts if not a.startswith("template:")) \
                    or any(a.startswith("template:") and template_text(str_template(kv[k])) == a[9:] for a in alts):
                ctx.r.ok(rid, "%s = %s" % (k, norm(kv[k])), f.loc(kv[k]))
            else:
                ctx.r.violation(rid, key_of(f, None, "binding::" + k), "%s is bound to %s (expected %s)" % (k, norm(kv[k]), alts[0]), f.loc(kv[k]))
    # path comes from request.path
    pd = [n for n in ast.walk(f.node) if isinstance(n, ast.Assign) and dotted(n.targets[0]) == "path"]
    if pd and norm(pd[0].value) == "request.path":
        ctx.r.ok(rid, "PATH_INFO derives from the percent-decoded request path", f.loc(pd[0]))
    else:
        ctx.r.violation(rid, key_of(f, None, "path-source"), "PATH_INFO does not derive from request.path", f.loc())


def rule_r9(ctx):
    rid = "C07.R9"
    ctx.r.rule(rid, "url_prefix split on a segment boundary: the prefix is removed only from a path that equals it or starts with url_prefix + '/' (PATH_INFO stays empty or slash-led)")
    p = ctx.p
    f = p.func("task.WSGITask.get_environment")
    g = cfg_of(f)
    def _rl(e):
        """text of e with single-assignment locals resolved (prefix_len -> len(url_prefix) -> ...), spaces removed"""
        return norm(resolve_locals(f, e)).replace(" ", "").replace('"', "'") if e is not None else None
    LENP = _rl(ast.parse("len(url_prefix)", mode="eval").body)
    PSL = _rl(ast.parse("url_prefix + '/'", mode="eval").body)
    cuts = [n for n in g.nodes if n.kind == "stmt" and isinstance(n.ast, ast.Assign) and dotted(n.ast.targets[0]) == "path" and isinstance(n.ast.value, ast.Subscript)
            and dotted(n.ast.value.value) == "path" and isinstance(n.ast.value.slice, ast.Slice) and LENP in (_rl(n.ast.value.slice.lower) or "")]
    if not cuts:
        ctx.r.violation(rid, key_of(f, None, "no-prefix-cut"), "get_environment no longer removes url_prefix from the path", f.loc())
        return
    for n in cuts:
        sl = n.ast.value.slice
        if not (sl.upper is None and _rl(sl.lower) == LENP):
            ctx.r.violation(rid, key_of(f, None, "prefix-cut-slice"), "the prefix is removed by %s (expected path[len(url_prefix):])" % norm(n.ast.value), f.loc(n.ast))
            continue
        ok = False
        for (t, pol) in guards_of(g, n):
            if pol and isinstance(t, ast.Call) and isinstance(t.func, ast.Attribute) and t.func.attr == "startswith" and dotted(t.func.value) == "path" and t.args:
                a = t.args[0]
                txt = norm(a).replace(" ", "")
                if txt in ("url_prefix+'/'",):
                    ok = True
                elif isinstance(a, ast.Name):
                    d = [m for m in walk_own(f.node) if isinstance(m, ast.Assign) and dotted(m.targets[0]) == a.id]
                    if d and norm(d[0].value).replace(" ", "") == "url_prefix+'/'":
                        ok = True
            # the same test as a slice comparison: path[:len(url_prefix) + 1] == url_prefix + '/'
            if pol and isinstance(t, ast.Compare) and len(t.ops) == 1 and isinstance(t.ops[0], ast.Eq):
                for a0, b0 in ((t.left, t.comparators[0]), (t.comparators[0], t.left)):
                    if isinstance(a0, ast.Subscript) and dotted(a0.value) == "path" and isinstance(a0.slice, ast.Slice) and a0.slice.lower is None and a0.slice.step is None \
                            and (_rl(a0.slice.upper) or "") == LENP + "+1" and _rl(b0) == PSL:
                        ok = True
        if ok:
            ctx.r.ok(rid, "prefix removed only when the path starts with url_prefix + '/'", f.loc(n.ast))
        else:
            ctx.r.violation(rid, key_of(f, None, "prefix-not-on-boundary"),
                            "url_prefix is cut off a path that merely starts with the same characters (not on a '/' boundary): with url_prefix=/app, /application yields PATH_INFO 'lication'", f.loc(n.ast))
    eq = [n for n in g.nodes if n.kind == "stmt" and isinstance(n.ast, ast.Assign) and dotted(n.ast.targets[0]) == "path" and isinstance(n.ast.value, ast.Constant) and n.ast.value.value == ""]
    for n in eq:
        if any(pol and isinstance(t, ast.Compare) and isinstance(t.ops[0], ast.Eq) and {norm(t.left), norm(t.comparators[0])} == {"path", "url_prefix"} for (t, pol) in guards_of(g, n)):
            ctx.r.ok(rid, "PATH_INFO is empty exactly when the path equals the prefix", f.loc(n.ast))
        else:
            ctx.r.violation(rid, key_of(f, None, "empty-path-guard"), "PATH_INFO is emptied without the path being equal to url_prefix", f.loc(n.ast))
    # leading slashes collapsed before the comparison
    norml = [n for n in g.nodes if n.kind == "stmt" and isinstance(n.ast, ast.Assign) and dotted(n.ast.targets[0]) == "path" and norm(n.ast.value).replace('"', "'") == "'/' + path.lstrip('/')"]
    if norml and all(norml[0].id not in g.reach(c) and c.id in g.reach(norml[0]) for c in cuts):
        ctx.r.ok(rid, "leading slashes are collapsed to one before the prefix is compared", f.loc(norml[0].ast))
    else:
        ctx.r.violation(rid, key_of(f, None, "slash-normalisation"), "leading slashes are not collapsed before the url_prefix comparison", f.loc())


def rule_r10(ctx):
    """Shared with C17.R1-R4 and C02.R1/R2b: wsgi.input is the receiver's buffer - it holds exactly the body bytes only if the
    buffers are faithful queues (also across the spill to a temporary file) and the receivers' carry fields are kept right
    however the body was cut into reads."""
    from . import c02, c17
    c17.rule_r1(ctx, rid="C07.R10")
    c17.rule_r2(ctx, rid="C07.R10")
    c17.rule_r3(ctx, rid="C07.R10")
    c17.rule_r4(ctx, rid="C07.R10")
    c02.rule_r1(ctx, rid="C07.R11")
    c02.rule_r2_receivers(ctx, rid="C07.R11")


def rule_r12(ctx):
    rid = "C07.R12"
    ctx.r.rule(rid, "the url_prefix cut of get_environment relies on a normalised prefix: for EVERY configured string the cast of `url_prefix` yields '' or one '/' followed by a text that neither starts nor ends with '/' (string abstract interpretation of the cast; a prefix that keeps a trailing slash is never matched as prefix + '/', SCRIPT_NAME then ends in '/' and PATH_INFO keeps the prefix)")
    from ..relang import FULL, L, mask_of
    from ..strlang import SIGMA, Interp, Str
    p = ctx.p
    cast = None
    for (name, fn) in _param_casts(ctx):
        if name == "url_prefix":
            cast = fn
    if cast is None:
        raise AnalysisError("anchor vanished: the cast of the url_prefix setting")
    f = p.functions.get("adjustments." + cast)
    if f is None:
        ctx.r.violation(rid, "url-prefix-cast::" + cast, "url_prefix is cast by %s, not by a normaliser of this package: slashes are kept as configured" % cast, "src/waitress/adjustments.py")
        return
    it = Interp(p)
    a = it.analyse(f, {f.params[0]: Str(SIGMA)})
    if a is None or not isinstance(a.ret, Str):
        raise AnalysisError("cannot interpret %s over strings (%r)" % (f.qual, getattr(a, "ret", None)))
    slash = L.lit(b"/")
    any1 = L.chars(FULL)
    bad = {
        "trailing-slash": L.cat(L.sigma_star(), slash),  # '/' alone included: SCRIPT_NAME '/' + PATH_INFO '/x' is not the request path '/x'; the root is '' 
        "no-leading-slash": L.cat(L.chars(FULL & ~mask_of(b"/")), L.sigma_star()),
        "double-leading-slash": L.cat(slash, slash, L.sigma_star()),
    }
    for what, lang in bad.items():
        w = (a.ret.lang & lang.minimized()).witness()
        if w is None:
            ctx.r.ok(rid, "%s: no result with %s" % (f.qual, what), f.loc())
        else:
            ctx.r.violation(rid, key_of(f, None, "url-prefix-" + what), "%s can return %r (%s): get_environment compares the path with url_prefix + '/' and sets SCRIPT_NAME = url_prefix, so for that configuration the prefix is never split off / SCRIPT_NAME is not a path prefix" % (f.qual, w.decode("latin-1"), what), f.loc())


def _param_casts(ctx):
    """(name, cast function name) pairs of Adjustments._params"""
    from .c20 import _params
    _, params = _params(ctx)
    out = []
    for e in params:
        if isinstance(e, tuple) and len(e) == 2:
            c = e[1]
            out.append((e[0], getattr(c, "name", repr(c)).split(":")[-1].split(".")[-1]))
    return out


RULES = [rule_r1, rule_r2, rule_r3, rule_r4, rule_r5, rule_r7, rule_r8, rule_r9, rule_r10, rule_r12]

from ..selftest import M, T, V  # noqa: E402

selftest = [
    M("override-guard-dropped", "task.py", "            if mykey not in environ:\n                environ[mykey] = value", "            environ[mykey] = value", "R4"),
    M("host-renamed", "task.py", "    \"CONTENT_TYPE\": \"CONTENT_TYPE\",\n}", "    \"CONTENT_TYPE\": \"CONTENT_TYPE\",\n    \"HOST\": \"SERVER_NAME\",\n}", "R4"),
    M("server-http-key", "task.py", "            \"wsgi.input_terminated\": True,  # wsgi.input is EOF terminated", "            \"wsgi.input_terminated\": True,  # wsgi.input is EOF terminated\n            \"HTTP_X_SERVED_BY\": \"waitress\",", "R4"),
    M("merge-prepends", "parser.py", "                headers[key1] += (b\", \" + value).decode(\"latin-1\")", "                headers[key1] = (value + b\", \").decode(\"latin-1\") + headers[key1]", "R2"),
    M("merge-semicolon", "parser.py", "headers[key1] += (b\", \" + value).decode(\"latin-1\")", "headers[key1] += (b\"; \" + value).decode(\"latin-1\")", "R2"),
    M("value-utf8", "parser.py", "                headers[key1] = value.decode(\"latin-1\")", "                headers[key1] = value.decode(\"utf-8\", \"replace\")", "R3"),
    M("te-kept", "parser.py", "            te = headers.pop(\"TRANSFER_ENCODING\", \"\")", "            te = headers.get(\"TRANSFER_ENCODING\", \"\")", "R5"),
    M("cl-not-rewritten", "parser.py", "                    self.headers[\"CONTENT_LENGTH\"] = str(br.__len__())", "                    pass", "R5"),
    M("cl-from-counter", "parser.py", "                    self.headers[\"CONTENT_LENGTH\"] = str(br.__len__())", "                    self.headers[\"CONTENT_LENGTH\"] = str(self.body_bytes_received)", "R5"),
    M("unquote-before-split", "parser.py", "            scheme, netloc, path, query, fragment = parse.urlsplit(uri)", "            scheme, netloc, path, query, fragment = parse.urlsplit(unquote_to_bytes(uri))", "R7"),
    M("query-unquoted", "parser.py", "        query.decode(\"latin-1\"),", "        unquote_bytes_to_wsgi(query),", "R7"),
    M("method-from-elsewhere", "task.py", "            \"REQUEST_METHOD\": request.command.upper(),", "            \"REQUEST_METHOD\": request.headers.get(\"X_HTTP_METHOD_OVERRIDE\", request.command).upper(),", "R8"),
    M("underscore-kept", "parser.py", "            if b\"_\" in key:\n                # TODO(xistence): Should we drop this request instead?\n\n                continue\n", "", "R1"),
    M("prefix-not-on-boundary", "task.py", "                if path.startswith(url_prefix_with_trailing_slash):", "                if path.startswith(url_prefix):", "R9"),
    T("guard-in", "task.py", "            if mykey not in environ:\n                environ[mykey] = value", "            if mykey in environ:\n                continue\n            environ[mykey] = value"),
    T("len-builtin", "parser.py", "str(br.__len__())", "str(len(br))"),
]
