"""C01 / C10: an empty line where a chunk-size line is expected ("5 CRLF hello CRLF CRLF 0 CRLF CRLF").  chunk-size = 1*HEXDIG:
an RFC 9112 parser refuses the message; ChunkedReceiver skipped the empty line and delivered the body (a framing guessed
around a malformed chunk size).  Run as: PYTHONPATH=<tree>/src /venv/bin/python findings/demo_c10_empty_control_line.py
FAIL before the fix, PASS after."""
import sys
from waitress.adjustments import Adjustments
from waitress.parser import HTTPRequestParser

head = b"POST / HTTP/1.1\r\nHost: h\r\nTransfer-Encoding: chunked\r\n\r\n"
bad = []
for body in (b"5\r\nhello\r\n\r\n0\r\n\r\n", b"\r\n5\r\nhello\r\n0\r\n\r\n", b"5\r\nhello\r\n\r\n\r\n\r\n0\r\n\r\n"):
    p = HTTPRequestParser(Adjustments())
    data = head + body
    while data and not p.completed:
        n = p.received(data)
        data = data[n:]
    if p.completed and not p.error:
        bad.append("%r delivered as a request with body %r" % (body, p.get_body_stream().read()))
# control: the well-formed message is still accepted
p = HTTPRequestParser(Adjustments())
data = head + b"5\r\nhello\r\n0\r\n\r\n"
while data and not p.completed:
    data = data[p.received(data):]
if p.error or not p.completed or p.get_body_stream().read() != b"hello":
    bad.append("the well-formed chunked message is no longer accepted")
if bad:
    print("FAIL: " + "; ".join(bad)); sys.exit(1)
print("PASS"); sys.exit(0)
