"""C07: url_prefix='/' (or '//', ' / ') - "the value passed minus any trailing slashes" (docs/arguments.rst) is '', the root.
The cast kept a lone '/': SCRIPT_NAME became '/' and no request path starts with '//', so nothing was ever split off and
SCRIPT_NAME + PATH_INFO was '//x' for the request path '/x' (wsgiref.validate: "SCRIPT_NAME cannot be '/'").
Run as:  PYTHONPATH=<tree>/src /venv/bin/python findings/demo_c07_root_prefix.py   (FAIL before fix, PASS after)"""
import sys
from waitress.adjustments import Adjustments
from waitress.parser import HTTPRequestParser
from waitress.task import WSGITask


class Srv:
    effective_host = "127.0.0.1"; effective_port = 80; server_name = "localhost"
class Chan:
    addr = ("127.0.0.1", 1234); creation_time = 0
    def check_client_disconnected(self): return False
    def __init__(self, adj):
        self.adj = adj; self.server = Srv(); self.server.adj = adj


bad = []
for prefix in ("/", "//", " / ", "/app", "/app/", ""):
    adj = Adjustments(url_prefix=prefix)
    for target in ("/", "/x", "/app/x"):
        p = HTTPRequestParser(adj)
        p.received(b"GET %s HTTP/1.1\r\nHost: h\r\n\r\n" % target.encode())
        env = WSGITask(Chan(adj), p).get_environment()
        sn, pi = env["SCRIPT_NAME"], env["PATH_INFO"]
        hit = sn == "" or target == sn or target.startswith(sn + "/")  # a request outside the prefix keeps its path (documented)
        if sn.endswith("/") or (hit and (sn + pi) != target):
            bad.append("url_prefix=%r target=%r -> SCRIPT_NAME=%r PATH_INFO=%r" % (prefix, target, sn, pi))
if bad:
    print("FAIL:\n  " + "\n  ".join(bad)); sys.exit(1)
print("PASS"); sys.exit(0)
