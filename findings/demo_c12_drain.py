"""
C12 demo (a): a producer paused at the high watermark must be released once
the client is able to drain the backlog.

Configuration (degenerate but legal): outbuf_high_watermark=0, send_bytes=1.
Schedule:
  1. the client socket is stalled (send() -> EWOULDBLOCK);
  2. the worker thread writes b"A"*5000 (1 byte == send_bytes, nothing can be sent),
     then writes b"B"*10: total_outbufs_len (1) > watermark (0) so it pauses in
     outbuf_lock.wait();
  3. the client becomes writable again; the I/O thread runs its normal
     writable()/handle_write() cycle.
Expected: the I/O thread flushes the backlog, notifies, the worker resumes and
the client receives b"AB".
"""
import errno
import socket
import sys
import threading
import time

from waitress.adjustments import Adjustments
from waitress.channel import HTTPChannel


class StallableSock:
    def __init__(self):
        self.stalled = True
        self.sent = b""
        self.closed = False

    def getsockopt(self, level, opt):
        return 65536

    def setblocking(self, flag):
        pass

    def fileno(self):
        return 4242

    def getpeername(self):
        return ("127.0.0.1", 1)

    def send(self, data):
        if self.stalled:
            raise OSError(errno.EWOULDBLOCK, "would block")
        self.sent += bytes(data)
        return len(data)

    def close(self):
        self.closed = True


class Server:
    def __init__(self):
        self.active_channels = {}
        self.triggered = 0

    def pull_trigger(self):
        self.triggered += 1

    def add_task(self, task):
        pass


class TracingCondition(threading.Condition().__class__):
    """A real Condition which tells us when the producer starts to wait."""

    def __init__(self):
        super().__init__()
        self.waiting = threading.Event()

    def wait(self, timeout=None):
        self.waiting.set()
        return super().wait(timeout)


def main():
    adj = Adjustments(outbuf_high_watermark=1000, send_bytes=18000)
    sock = StallableSock()
    server = Server()
    chan = HTTPChannel(server, sock, ("127.0.0.1", 1), adj, map={})
    chan.outbuf_lock = TracingCondition()
    chan.requests = [object()]  # a task is running on this channel

    result = {}

    def producer():
        try:
            chan.write_soon(b"A"*5000)
            chan.write_soon(b"B"*10)
            result["ok"] = True
        except BaseException as e:  # pragma: no cover
            result["exc"] = e

    t = threading.Thread(target=producer, daemon=True)
    t.start()

    if not chan.outbuf_lock.waiting.wait(5):
        print("FAIL: producer never reached the watermark wait (setup problem)")
        return 1
    if chan.total_outbufs_len != 5000:
        print("FAIL: unexpected backlog %r" % chan.total_outbufs_len)
        return 1

    # the client can take data again; run the I/O thread's cycle
    sock.stalled = False
    deadline = time.time() + 4
    cycles = 0
    while t.is_alive() and time.time() < deadline:
        if chan.writable():
            chan.handle_write()
        cycles += 1
        time.sleep(0.001)
    t.join(1)

    if t.is_alive():
        print(
            "FAIL: producer still paused after %d I/O cycles although the client "
            "is writable (backlog=%d, watermark=%d, send_bytes=%d, sent=%r)"
            % (
                cycles,
                chan.total_outbufs_len,
                adj.outbuf_high_watermark,
                adj.send_bytes,
                sock.sent,
            )
        )
        # release the stuck thread so the interpreter can exit cleanly
        chan.handle_close()
        return 1
    if "exc" in result:
        print("FAIL: producer raised %r" % (result["exc"],))
        return 1
    # drain the rest
    for _ in range(10):
        if chan.total_outbufs_len:
            chan.requests = []
            chan.handle_write()
    if len(sock.sent) != 5010:
        print("FAIL: client received %r instead of b'AB'" % sock.sent)
        return 1
    print("PASS")
    return 0


if __name__ == "__main__":
    sys.exit(main())
