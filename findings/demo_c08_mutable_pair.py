"""C08: header pairs given as (mutable) lists and changed after start_response returned."""
import socket, threading, sys
from waitress.server import create_server

def app(environ, start_response):
    pair = ["X-Info", "harmless"]
    start_response("200 OK", [("Content-Type", "text/plain"), pair, ("Content-Length", "2")])
    pair[1] = "x\r\nSet-Cookie: injected=1"   # after validation
    return [b"ok"]

srv = create_server(app, host="127.0.0.1", port=0, threads=1)
port = srv.effective_port
t = threading.Thread(target=srv.run, daemon=True); t.start()
s = socket.create_connection(("127.0.0.1", port)); s.settimeout(5)
s.sendall(b"GET / HTTP/1.1\r\nHost: x\r\nConnection: close\r\n\r\n")
data = b""
while True:
    try:
        c = s.recv(65536)
    except socket.timeout:
        break
    if not c: break
    data += c
head = data.split(b"\r\n\r\n")[0]
print(head.decode("latin-1"))
if b"\r\nSet-Cookie: injected=1" in data:
    print("FAIL: a header line supplied after validation was emitted (response splitting)"); sys.exit(1)
print("PASS"); sys.exit(0)
