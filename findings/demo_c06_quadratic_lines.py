"""C06 ("no input makes the parsing code ... hang"): two lines on which the request-line pattern and the header-field
pattern backtrack quadratically.  The demo feeds lines of growing length to the real parser and fails when doubling the
length multiplies the time by more than 3 (quadratic: 4, linear: 2) at a size where the time is measurable.
Run as:  PYTHONPATH=<tree>/src /venv/bin/python findings/demo_c06_quadratic_lines.py
Before the fixes 7b7bb85 / 5a9ac6e: FAIL (about 1.7 s -> 6 s for 4000 -> 8000 bytes of request line; a line of
max_request_header_size = 262144 bytes keeps the I/O thread busy for more than an hour).  After: PASS."""
import sys, time
from waitress.adjustments import Adjustments
from waitress.parser import HTTPRequestParser


def feed(head):
    p = HTTPRequestParser(Adjustments())
    t = time.perf_counter()
    p.received(head)
    return time.perf_counter() - t, p


bad = []
for what, mk in (("request line", lambda n: b"GET a://" + b"1" * n + b" X\r\nHost: x\r\n\r\n"),
                 ("header field", lambda n: b"GET / HTTP/1.1\r\nX:" + b"\t" * n + b"\x00\r\n\r\n")):
    t1, p1 = feed(mk(20000))
    t2, p2 = feed(mk(40000))
    print("%s: 20000 bytes %.3fs, 40000 bytes %.3fs, refused=%s" % (what, t1, t2, bool(p2.error)))
    if not p2.error:
        bad.append("%s: the malformed line was not refused" % what)
    if t2 > 0.5 and t2 > 3 * t1:
        bad.append("%s: super-linear parsing time (%.2fs -> %.2fs when the line doubles)" % (what, t1, t2))
if bad:
    print("FAIL: " + "; ".join(bad)); sys.exit(1)
print("PASS"); sys.exit(0)
