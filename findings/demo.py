"""Hand-run demonstrations for DESIGN.md section 5 (triage aid, not a check)."""
import errno
import logging
import socket
import struct
import sys
import threading
import time

logging.disable(logging.CRITICAL)

from waitress import channel, wasyncore  # noqa: E402
from waitress.adjustments import Adjustments  # noqa: E402
from waitress.buffers import OverflowableBuffer  # noqa: E402
from waitress.parser import HTTPRequestParser  # noqa: E402
from waitress.receiver import ChunkedReceiver  # noqa: E402
from waitress.server import create_server  # noqa: E402


def ok_app(environ, start_response):
    environ["wsgi.input"].read()
    start_response("200 OK", [("Content-Length", "2")])
    return [b"ok"]


def serve(app=ok_app, **kw):
    srv = create_server(app, host="127.0.0.1", port=0, **kw)
    threading.Thread(target=srv.run, daemon=True).start()
    return srv


def talk(srv, data, wait=1.0):
    s = socket.create_connection(("127.0.0.1", srv.effective_port))
    s.sendall(data)
    s.settimeout(wait)
    out = b""
    try:
        while True:
            d = s.recv(65536)
            if not d:
                out += b"<EOF>"
                break
            out += d
    except socket.timeout:
        out += b"<TIMEOUT>"
    s.close()
    return out


def parse(data):
    p = HTTPRequestParser(Adjustments())
    try:
        p.received(data)
    except Exception as e:  # the defect is that this can happen at all
        return "raised %s" % type(e).__name__
    return "error %s" % p.error.code if p.error else "accepted"


def chunked(data):
    r = ChunkedReceiver(OverflowableBuffer(10000))
    r.received(data)
    return "refused" if r.error else "accepted"


def f_c10_a():
    return chunked(b"5\n\r\nhello\r\n0\r\n\r\n") == "accepted"


def f_c10_b():
    return chunked(b"5;a=b\n\r\nhello\r\n0\r\n\r\n") == "accepted"


def f_c10_c():
    return all(
        parse(x) == "accepted"
        for x in (
            b"GET / HTTP/1.1\n\r\nHost: a\r\n\r\n",
            b"GET / HTTP/1.1\r\r\nHost: a\r\n\r\n",
            b" \x0b\x0cGET / HTTP/1.1 \x0b\t\r\nHost: a\r\n\r\n",
        )
    )


def f_c10_d():
    return parse(b"GET /a\tb\x00c HTTP/1.1\r\nHost: a\r\n\r\n") == "accepted"


def f_c01_a():
    calls = []

    def app(environ, start_response):
        calls.append(environ["PATH_INFO"])
        return ok_app(environ, start_response)

    out = talk(
        serve(app),
        b"POST /a HTTP/1.1\r\nHost: x\r\nContent-Length: 3\r\n"
        b"Transfer-Encoding: chunked\r\n\r\n0\r\n\r\nGET /b HTTP/1.1\r\nHost: x\r\n\r\n",
    )
    return calls == ["/a", "/b"] and not out.endswith(b"<EOF>")


def f_c01_b():
    out = talk(
        serve(),
        b"GET /a HTTP/1.0\r\nConnection: keep-alive\r\nTransfer-Encoding: chunked\r\n\r\n"
        b"0\r\n\r\nGET /b HTTP/1.0\r\n\r\n",
    )
    return b"Connection: Keep-Alive" in out and out.count(b"HTTP/1.0 ") == 2


def f_c01_d():
    return chunked(b"5\r\nhello\r\n0\r\nX: y\nZ\r\n\r\n") == "accepted"


def f_c03_a():
    out = talk(serve(), b"GET / HTTP/1.0\r\nConnection: keep-alive\r\nContent-Length: x\r\n\r\n")
    head = out.split(b"\r\n\r\n")[0]
    return b"Connection: close" in head and b"Connection: Keep-Alive" in head


def f_c06_a():
    return parse(b"GET / HTTP/1.1\r\nContent-Length: " + b"1" * 5000 + b"\r\n\r\n").startswith("raised")


def f_c06_b():
    return parse(b"GET http://[::1/x HTTP/1.1\r\nHost: a\r\n\r\n").startswith("raised")


def f_c09_a():
    def app(environ, start_response):
        raise FileNotFoundError("nope")

    return talk(serve(app, log_socket_errors=False), b"GET / HTTP/1.1\r\nHost: x\r\n\r\n") == b"<EOF>"


def f_c09_b():
    def app(environ, start_response):
        raise SystemExit(1)

    return talk(serve(app), b"GET / HTTP/1.1\r\nHost: x\r\n\r\n", 1.5) == b"<TIMEOUT>"


def f_c12_a():
    n, sz = 6, 4 * 1024 * 1024

    def app(environ, start_response):
        start_response("200 OK", [("Content-Length", str(n * sz))])
        for _ in range(n):
            yield b"x" * sz

    srv = serve(app, outbuf_high_watermark=0)
    s = socket.create_connection(("127.0.0.1", srv.effective_port))
    s.sendall(b"GET / HTTP/1.1\r\nHost: x\r\n\r\n")
    time.sleep(1.0)  # let the producer reach the mark and sleep
    s.settimeout(5)
    got = 0
    try:
        while got < n * sz:
            d = s.recv(1 << 20)
            if not d:
                break
            got += len(d)
    except socket.timeout:
        return True  # producer never released although the client drained everything
    return False


class _Wrap:
    def __init__(self, s):
        self._s = s

    def __getattr__(self, n):
        return getattr(self._s, n)


def _wrap_accept(srv, cls):
    orig = srv.accept

    def accept():
        v = orig()
        return v if v is None else (cls(v[0]), v[1])

    srv.accept = accept


def _slow_io(delay):
    orig = channel.HTTPChannel.handle_write

    def slow(self):
        time.sleep(delay)  # forced schedule: the I/O thread is pre-empted here
        return orig(self)

    channel.HTTPChannel.handle_write = slow
    return lambda: setattr(channel.HTTPChannel, "handle_write", orig)


def f_c13_a():
    events = []
    orig_close = wasyncore.dispatcher.close

    def close(self):
        events.append((type(self).__name__, threading.current_thread().name))
        return orig_close(self)

    wasyncore.dispatcher.close = close
    undo = _slow_io(0.7)
    try:

        def app(environ, start_response):
            time.sleep(0.5)  # the client resets meanwhile
            return ok_app(environ, start_response)

        srv = serve(app, threads=1)
        s = socket.create_connection(("127.0.0.1", srv.effective_port))
        s.sendall(
            b"GET /1 HTTP/1.1\r\nHost: x\r\n\r\nPOST /2 HTTP/1.1\r\nHost: x\r\n"
            b"Expect: 100-continue\r\nContent-Length: 5\r\n\r\n"
        )
        time.sleep(0.2)
        s.setsockopt(socket.SOL_SOCKET, socket.SO_LINGER, struct.pack("ii", 1, 0))
        s.close()  # RST
        time.sleep(2.0)
    finally:
        undo()
        wasyncore.dispatcher.close = orig_close
    return any(c == "HTTPChannel" and t.startswith("waitress-") for c, t in events)


def f_c13_b():
    class Bad(_Wrap):
        n = [0]

        def getsockopt(self, *a):
            Bad.n[0] += 1
            if Bad.n[0] == 1:
                raise OSError(errno.EINVAL, "injected")
            return self._s.getsockopt(*a)

    srv = create_server(ok_app, host="127.0.0.1", port=0)
    _wrap_accept(srv, Bad)
    threading.Thread(target=srv.run, daemon=True).start()
    try:
        talk(srv, b"GET / HTTP/1.1\r\nHost: x\r\n\r\n")
    except OSError:
        pass
    time.sleep(0.3)
    return srv.socket is None  # the listening socket is gone


def f_c11_a():
    log = []
    chans = []

    def app(environ, start_response):
        log.append((environ["PATH_INFO"], chans[0].will_close))
        return ok_app(environ, start_response)

    class Faulty(_Wrap):
        n = 0

        def send(self, data):
            self.n += 1
            if self.n == 1:
                raise OSError(errno.EINVAL, "injected send fault")
            return self._s.send(data)

    orig_init = channel.HTTPChannel.__init__

    def init(self, *a, **k):
        orig_init(self, *a, **k)
        chans.append(self)

    channel.HTTPChannel.__init__ = init
    undo = _slow_io(0.5)
    try:
        srv = create_server(app, host="127.0.0.1", port=0, threads=1)
        _wrap_accept(srv, Faulty)
        threading.Thread(target=srv.run, daemon=True).start()
        s = socket.create_connection(("127.0.0.1", srv.effective_port))
        s.sendall(b"GET /1 HTTP/1.1\r\nHost: x\r\n\r\nGET /2 HTTP/1.1\r\nHost: x\r\n\r\n")
        time.sleep(1.5)
    finally:
        undo()
        channel.HTTPChannel.__init__ = orig_init
    return ("/2", True) in log  # executed after the close decision


def f_c16_a():
    srv = serve(trusted_proxy="127.0.0.1", trusted_proxy_headers={"forwarded"})
    a = talk(srv, b"GET / HTTP/1.1\r\nHost: x\r\nForwarded: for=:80\r\n\r\n")
    srv2 = serve(trusted_proxy="127.0.0.1", trusted_proxy_headers={"x-forwarded-for"})
    b = talk(srv2, b'GET / HTTP/1.1\r\nHost: x\r\nX-Forwarded-For: " "\r\n\r\n')
    return a.startswith(b"HTTP/1.1 500") and b.startswith(b"HTTP/1.1 500")


def f_c19_a():
    calls = []

    def app(environ, start_response):
        calls.append(environ["PATH_INFO"])
        return ok_app(environ, start_response)

    out = talk(
        serve(app),
        b"GET /a HTTP/1.1\r\nHost: x\r\nExpect: 100-continue\r\n\r\nGET /b HTTP/1.1\r\nHost: x\r\n\r\n",
    )
    return calls == [] and b"Duplicate header: Host" in out


DEMOS = {
    "F-C10-a": f_c10_a, "F-C10-b": f_c10_b, "F-C10-c": f_c10_c, "F-C10-d": f_c10_d,
    "F-C01-a": f_c01_a, "F-C01-b": f_c01_b, "F-C01-d": f_c01_d, "F-C03-a": f_c03_a,
    "F-C06-a": f_c06_a, "F-C06-b": f_c06_b, "F-C09-a": f_c09_a, "F-C09-b": f_c09_b,
    "F-C11-a": f_c11_a, "F-C12-a": f_c12_a, "F-C13-a": f_c13_a, "F-C13-b": f_c13_b,
    "F-C16-a": f_c16_a, "F-C19-a": f_c19_a,
}

if __name__ == "__main__":
    for name in sys.argv[1:] or sorted(DEMOS):
        try:
            hit = DEMOS[name]()
        except Exception as e:
            print("demo-error", name, type(e).__name__, e)
            continue
        print(("REPRODUCED " if hit else "not reproduced ") + name, flush=True)
