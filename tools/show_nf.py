#!/venv/bin/python
"""Debug aid: print the normal form of one function.  usage: tools/show_nf.py <root> <qualname> [prop]"""
import ast, sys
sys.path.insert(0, "/verif")
from wverif.model import Program, load_sources
from wverif.__main__ import _anchor_names
root, q = sys.argv[1], sys.argv[2]
p = Program(load_sources(root))
p.normalise(_anchor_names())
print(ast.unparse(p.functions[q].node))
