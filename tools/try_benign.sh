#!/bin/bash
# usage: tools/try_benign.sh <diff> : apply to /repo, run all 20 quick checks in parallel, revert; print non-zero ones
d=$1
cd /repo || exit 2
if ! git apply --check "$d" 2>/dev/null; then echo "$(basename $d): PATCH DOES NOT APPLY"; exit 3; fi
git apply "$d"
cd /verif
res=$(for i in 01 02 03 04 05 06 07 08 09 10 11 12 13 14 15 16 17 18 19 20; do echo C$i; done | xargs -P 10 -I{} sh -c 'timeout 300 /venv/bin/python -m wverif check {} --no-write > /tmp/ben_{}.out 2>&1; echo "{}=$?"' | sort | tr '\n' ' ')
git -C /repo checkout -- .
bad=$(echo "$res" | tr ' ' '\n' | grep -v "=0$" | tr '\n' ' ')
echo "$(basename $(dirname $d))/$(basename $d): ${bad:-all-0}"
for b in $bad; do p=${b%%=*}; grep -E "^(  C|ANALYSIS-ERROR)" /tmp/ben_$p.out | head -4 | cut -c1-260; done
