#!/bin/bash
# usage: tools/try_benign.sh <diff>... : apply each to a scratch export of /repo HEAD (in /dev/shm), run all 20 quick
# checks against it with --root, print the non-zero ones.  Nothing is written to /repo or to evidence/.
one() {
  d=$1
  tag=$(echo $d | sed "s#/patch.diff##; s#.diff##" | awk -F/ "{print \$(NF-1)\"_\"\$NF}")
  w=/dev/shm/ben_$tag
  rm -rf $w; mkdir -p $w
  git -C /repo archive HEAD | tar -x -C $w
  if ! (cd $w && git apply --unsafe-paths --directory=$w $d 2>/dev/null || patch -s -p1 -d $w < $d >/dev/null 2>&1); then echo "$tag: PATCH DOES NOT APPLY"; rm -rf $w; return; fi
  cd /verif
  res=""
  for i in ${PROPS:-01 02 03 04 05 06 07 08 09 10 11 12 13 14 15 16 17 18 19 20}; do
    timeout 300 /venv/bin/python -m wverif check C$i --root $w --no-write > $w/out_C$i.txt 2>&1
    rc=$?
    [ $rc -ne 0 ] && res="$res C$i=$rc"
  done
  echo "$tag:${res:- all-0}"
  for b in $res; do p=${b%%=*}; grep -E "^(  C|ANALYSIS-ERROR)" $w/out_$p.txt | head -4 | cut -c1-260; done
  rm -rf $w
}
export -f one
printf "%s\n" "$@" | xargs -P 14 -I{} bash -c 'one {}'
