#!/bin/bash
# usage: tools/try_one.sh <diff> <prop>... : scratch export of /repo HEAD + diff, run the given quick checks with --root, keep nothing
d=$1; shift
w=/dev/shm/one_$$; rm -rf $w; mkdir -p $w; git -C /repo archive HEAD | tar -x -C $w
(cd $w && git apply --unsafe-paths --directory=$w $d 2>/dev/null || patch -s -p1 -d $w < $d >/dev/null 2>&1) || { echo PATCH-FAILED; rm -rf $w; exit 3; }
for p in "$@"; do (cd /verif && timeout 300 /venv/bin/python -m wverif check $p --root $w --no-write 2>&1 | grep -E "^(  C|ANALYSIS-ERROR|RESULT)" | cut -c1-${COLS:-420}); done
[ -n "$KEEP" ] && echo "kept $w" || rm -rf $w
