#!/venv/bin/python
"""Exploration aid (not a check): re-run all 20 checks, with the rules as they are now, on the mutants that
tools/mutation_suite.py found to pass the repository's test suite.
usage: tools/mutation_rerun.py <suite.jsonl> <out.jsonl> [--procs N]"""
import json
import multiprocessing
import sys

sys.path.insert(0, "/verif")
sys.path.insert(0, "/verif/tools")
from wverif.model import load_sources  # noqa: E402
import mutation_scan as ms  # noqa: E402


def main():
    inp, outp = sys.argv[1], sys.argv[2]
    procs = int(sys.argv[4]) if len(sys.argv) > 4 else 8
    want = set()
    for x in open(inp):
        r = json.loads(x)
        if r.get("suite") == 0:
            want.add((r["file"], r["kind"], r["line"], r["before"]))
    sources = load_sources("/repo")
    jobs = []
    for path, src in sorted(sources.items()):
        if not any(k[0] == path for k in want):
            continue
        for kind, fname, node, tree in ms.mutants_of(path, src):
            new, before = ms.apply(kind, node, tree)
            key = (path, kind, node.lineno, before)
            if new is None or key not in want:
                continue
            want.discard(key)
            jobs.append((path, kind, fname, node.lineno, before, new, sources))
    print("jobs", len(jobs), file=sys.stderr)
    with multiprocessing.Pool(procs) as pool, open(outp, "w") as fh:
        for r in pool.imap_unordered(ms.run_one, jobs, chunksize=1):
            fh.write(json.dumps(r) + "\n")
            fh.flush()


if __name__ == "__main__":
    main()
