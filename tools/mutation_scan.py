#!/venv/bin/python
"""Exploration aid (not a check): generic first-order mutants of the analysed package, each run through all 20
property checkers in-process.  Prints, per mutant, which properties report a violation / decline.  Survivors are
either equivalent w.r.t. the properties or blind spots of the rules: they are a work list for reading, never evidence.

usage: tools/mutation_scan.py <out.jsonl> [--files a.py,b.py] [--procs N] [--limit K]
"""
import ast
import copy
import json
import multiprocessing
import sys

sys.path.insert(0, "/verif")
from wverif.model import load_sources  # noqa: E402

FLIP = {ast.Lt: ast.LtE, ast.LtE: ast.Lt, ast.Gt: ast.GtE, ast.GtE: ast.Gt, ast.Eq: ast.NotEq, ast.NotEq: ast.Eq,
        ast.Is: ast.IsNot, ast.IsNot: ast.Is, ast.In: ast.NotIn, ast.NotIn: ast.In}
PROPS = ["C%02d" % i for i in range(1, 21)]


def mutants_of(path, src):
    tree = ast.parse(src)
    sites = []
    for fn in ast.walk(tree):
        if not isinstance(fn, (ast.FunctionDef, ast.AsyncFunctionDef)):
            continue
        for n in ast.walk(fn):
            if isinstance(n, ast.Compare) and len(n.ops) == 1 and type(n.ops[0]) in FLIP:
                sites.append(("flip", fn.name, n))
            if isinstance(n, (ast.If, ast.While)) and not (isinstance(n.test, ast.Constant)):
                sites.append(("neg", fn.name, n))
            if isinstance(n, ast.BoolOp) and len(n.values) >= 2:
                for i in range(len(n.values)):
                    sites.append(("drop%d" % i, fn.name, n))
            for fld in ("body", "orelse", "finalbody"):
                sub = getattr(n, fld, None)
                if isinstance(sub, list):
                    for i, st in enumerate(sub):
                        if isinstance(st, (ast.Expr, ast.Assign, ast.AugAssign)) and not (isinstance(st, ast.Expr) and isinstance(st.value, ast.Constant)):
                            sites.append(("del", fn.name, st))
    seen = set()
    for kind, fname, node in sites:
        key = (kind, id(node))
        if key in seen:
            continue
        seen.add(key)
        yield kind, fname, node, tree


def apply(kind, node, tree):
    """returns (new source, description) - mutates a deep copy located by position"""
    t2 = copy.deepcopy(tree)
    target = None
    for n in ast.walk(t2):
        if type(n) is type(node) and getattr(n, "lineno", None) == getattr(node, "lineno", None) and getattr(n, "col_offset", None) == getattr(node, "col_offset", None) \
                and getattr(n, "end_col_offset", None) == getattr(node, "end_col_offset", None):
            target = n
            break
    if target is None:
        return None, None
    before = ast.unparse(target)[:70].replace("\n", " ")
    if kind == "flip":
        target.ops = [FLIP[type(target.ops[0])]()]
    elif kind == "neg":
        target.test = ast.UnaryOp(op=ast.Not(), operand=target.test)
    elif kind.startswith("drop"):
        i = int(kind[4:])
        vals = list(target.values)
        del vals[i]
        if len(vals) == 1:
            # replace the BoolOp by its remaining operand
            for p in ast.walk(t2):
                for f, v in ast.iter_fields(p):
                    if v is target:
                        setattr(p, f, vals[0])
                    elif isinstance(v, list):
                        for k, x in enumerate(v):
                            if x is target:
                                v[k] = vals[0]
        else:
            target.values = vals
    elif kind == "del":
        for p in ast.walk(t2):
            for f, v in ast.iter_fields(p):
                if isinstance(v, list):
                    for k, x in enumerate(v):
                        if x is target:
                            v[k] = ast.Pass()
    ast.fix_missing_locations(t2)
    try:
        return ast.unparse(t2), before
    except Exception:
        return None, None


def run_one(job):
    path, kind, fname, lineno, before, src, sources = job
    from wverif.__main__ import run_property
    from wverif.model import AnalysisError, Program
    srcs = dict(sources)
    srcs[path] = src
    out = {"file": path, "kind": kind, "func": fname, "line": lineno, "before": before, "viol": [], "decl": []}
    try:
        compile(src, path, "exec")
    except SyntaxError:
        out["decl"] = ["syntax"]
        return out
    for pr in PROPS:
        try:
            prog = Program(srcs)
            code, rep = run_property(pr, prog, "quick", quiet=True, write=False)
        except AnalysisError:
            code = 2
        except Exception:
            code = 2
        if code == 1:
            out["viol"].append(pr)
        elif code == 2:
            out["decl"].append(pr)
    return out


def main():
    outp = sys.argv[1]
    files = None
    procs = 10
    limit = None
    a = sys.argv[2:]
    while a:
        if a[0] == "--files":
            files = a[1].split(",")
            a = a[2:]
        elif a[0] == "--procs":
            procs = int(a[1])
            a = a[2:]
        elif a[0] == "--limit":
            limit = int(a[1])
            a = a[2:]
        else:
            a = a[1:]
    sources = load_sources("/repo")
    jobs = []
    for path, src in sorted(sources.items()):
        if not path.endswith(".py") or (files and path.split("/")[-1] not in files):
            continue
        if path.split("/")[-1] in ("__init__.py", "__main__.py", "compat.py", "runner.py"):
            continue
        for kind, fname, node, tree in mutants_of(path, src):
            new, before = apply(kind, node, tree)
            if new is None or new == ast.unparse(tree):
                continue
            jobs.append((path, kind, fname, node.lineno, before, new, sources))
    if limit:
        jobs = jobs[:limit]
    print("mutants:", len(jobs), file=sys.stderr)
    with multiprocessing.Pool(procs) as pool, open(outp, "w") as fh:
        for i, r in enumerate(pool.imap_unordered(run_one, jobs, chunksize=1)):
            fh.write(json.dumps(r) + "\n")
            fh.flush()
            if i % 50 == 0:
                print(i, file=sys.stderr)


if __name__ == "__main__":
    main()
