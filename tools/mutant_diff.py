#!/venv/bin/python
"""Exploration aid: write the unified diff of one mutant of tools/mutation_scan.py.
usage: tools/mutant_diff.py <file.py basename> <kind> <line> [<nth>] > out.diff
(the mutated file is ast.unparse()d as a whole, so the diff is large; meant for tools/try_benign.sh)"""
import difflib
import sys

sys.path.insert(0, "/verif")
sys.path.insert(0, "/verif/tools")
from wverif.model import load_sources  # noqa: E402
import mutation_scan as ms  # noqa: E402

base, kind, line = sys.argv[1], sys.argv[2], int(sys.argv[3])
nth = int(sys.argv[4]) if len(sys.argv) > 4 else 0
src = load_sources("/repo")
k = 0
for path, s in sorted(src.items()):
    if not path.endswith("/" + base):
        continue
    for kd, fname, node, tree in ms.mutants_of(path, s):
        if kd == kind and node.lineno == line:
            if k == nth:
                new, before = ms.apply(kd, node, tree)
                sys.stdout.writelines(difflib.unified_diff(s.splitlines(True), (new + "\n").splitlines(True), "a/" + path, "b/" + path))
                sys.exit(0)
            k += 1
sys.exit("no such mutant")
