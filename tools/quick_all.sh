#!/bin/bash
# all 20 quick checks on /repo's working tree, in parallel, nothing written; prints the RESULT lines that are not exit=0
cd /verif
for i in $(seq -w 1 20); do /venv/bin/python -m wverif check C$i --no-write 2>&1 | grep -E "^(RESULT|VIOLATION|ANALYSIS-ERROR|  C)" > /dev/shm/q_C$i.txt & done
wait
n=$(cat /dev/shm/q_C*.txt | grep "^RESULT" | grep -c "exit=0")
echo "exit=0: $n/20"
for i in $(seq -w 1 20); do grep -q "exit=0" /dev/shm/q_C$i.txt || cat /dev/shm/q_C$i.txt | cut -c1-300; done
