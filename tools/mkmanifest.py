#!/venv/bin/python
"""Regenerates /verif/MANIFEST.json from the claims table below."""
import json, os
HERE = os.path.dirname(os.path.dirname(os.path.abspath(__file__)))
PY = "/venv/bin/python"
props = [json.loads(l)["id"] for l in open(os.path.join(HERE, "properties.jsonl"))]

CLAIMS = json.load(open(os.path.join(HERE, "tools", "claims.json")))
NA = json.load(open(os.path.join(HERE, "tools", "not_applicable.json")))

man = {
    "version": 1,
    "setup_cmd": PY + " -m compileall -q wverif",
    "hooks": {
        "guard": "WAITRESS_VERIF",
        "enable": "none needed: every check is a static analysis of /repo's source; nothing is executed or instrumented",
        "baseline_off_cmd": "cd /repo && /venv/bin/python -m pytest -ra -q -p no:cacheprovider --timeout=900 --continue-on-collection-errors",
        "source_commits": [],
        "add_only": True,
    },
    "engines": [{
        "name": "wverif", "path": "wverif/", "serves_properties": sorted(CLAIMS),
        "kind_free_text": "repository-specific static analyser: ast program model, hand-built CFG with exception edges and dominators, points-to call graph with thread roles and constant propagation, lock regions, exception routing, regular-language abstract interpretation; stdlib only, nothing of /repo is imported or executed",
    }],
    "checks": [],
    "not_applicable": [],
    "notes": "Static analysis only. Exit 0 = all obligations discharged (known findings printed as KNOWN-FINDING); exit 1 + VIOLATION = an obligation failed on a named construct; exit 2 + ANALYSIS-ERROR = the analysis could not be carried out (vanished anchor, unsupported form). Known findings and fixed defects: known_findings.json. Each claim is the list of structural obligations in DESIGN.md section 3 for that property, not the behaviour as a whole.",
}
for pid in props:
    if pid in CLAIMS:
        c = CLAIMS[pid]
        man["checks"].append({
            "property_id": pid,
            "quick_cmd": "%s -m wverif check %s --tier quick" % (PY, pid),
            "thorough_cmd": "%s -m wverif check %s --tier thorough" % (PY, pid),
            "evidence_file": "evidence/%s.json" % pid,
            "replay_cmd_template": "%s -m wverif replay {path}" % PY,
            "engine": "wverif",
            "level_claimed": {"category": c.get("level", "other"), "text": c["text"], "design_ref": "DESIGN.md section 3, " + pid},
            "level_note": c["note"],
            "technique": c["technique"],
        })
    else:
        man["not_applicable"].append({"property_id": pid, "reason": NA.get(pid, "checker under construction in this round (DESIGN.md section 3 lists the planned static rules); not claimed until its rules run clean")})
json.dump(man, open(os.path.join(HERE, "MANIFEST.json"), "w"), indent=1)
print("claimed:", sorted(CLAIMS), "n/a:", [x["property_id"] for x in man["not_applicable"]])
