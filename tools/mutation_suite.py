#!/venv/bin/python
"""Exploration aid (not a check): for the mutants of tools/mutation_scan.py that no property check reports, run the
repository's own test suite on a scratch copy to separate "killed by the tests anyway" from "compiles, passes the
tests, and the checks are silent" - the latter is the reading list.

usage: tools/mutation_suite.py <scan.jsonl> <out.jsonl> [--procs N]
"""
import ast
import json
import multiprocessing
import os
import shutil
import subprocess
import sys

sys.path.insert(0, "/verif")
sys.path.insert(0, "/verif/tools")
from wverif.model import load_sources  # noqa: E402
import mutation_scan as ms  # noqa: E402


def run(job):
    idx, rel, src, row = job
    w = "/dev/shm/mutsuite_%d" % os.getpid()
    shutil.rmtree(w, ignore_errors=True)
    os.makedirs(w)
    subprocess.run("git -C /repo archive HEAD | tar -x -C %s" % w, shell=True, check=True)
    with open(os.path.join(w, rel), "w") as fh:
        fh.write(src)
    env = dict(os.environ, PYTHONPATH=w + "/src")
    try:
        p = subprocess.run(["/venv/bin/python", "-m", "pytest", "-x", "-q", "-p", "no:cacheprovider", "--no-cov", "--timeout=120"],
                           cwd=w, env=env, capture_output=True, text=True, timeout=900)
        tail = p.stdout.strip().splitlines()[-1] if p.stdout.strip() else ""
        code = p.returncode
    except subprocess.TimeoutExpired:
        tail, code = "timeout", 124
    shutil.rmtree(w, ignore_errors=True)
    row = dict(row)
    row["suite"] = code
    row["tail"] = tail[-100:]
    return row


def main():
    scan, outp = sys.argv[1], sys.argv[2]
    procs = int(sys.argv[4]) if len(sys.argv) > 4 and sys.argv[3] == "--procs" else 6
    rows = [json.loads(x) for x in open(scan)]
    done = set()
    if os.path.exists(outp):
        for x in open(outp):
            r = json.loads(x)
            done.add((r["file"], r["kind"], r["line"], r["before"]))
    want = {(r["file"], r["kind"], r["line"], r["before"]): r for r in rows if not r["viol"] and not r["decl"]}
    sources = load_sources("/repo")
    jobs = []
    for path, src in sorted(sources.items()):
        if not any(k[0] == path for k in want):
            continue
        rel = os.path.relpath(path, "/repo") if path.startswith("/") else path
        for kind, fname, node, tree in ms.mutants_of(path, src):
            new, before = ms.apply(kind, node, tree)
            key = (path, kind, node.lineno, before)
            if new is None or key not in want or key in done:
                continue
            done.add(key)
            jobs.append((len(jobs), rel, new, want[key]))
    print("jobs", len(jobs), file=sys.stderr)
    with multiprocessing.Pool(procs) as pool, open(outp, "a") as fh:
        for i, r in enumerate(pool.imap_unordered(run, jobs, chunksize=1)):
            fh.write(json.dumps(r) + "\n")
            fh.flush()


if __name__ == "__main__":
    main()
