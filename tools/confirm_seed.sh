#!/bin/bash
# usage: tools/confirm_seed.sh <seed-src-dir> <dest-id> <property> : confirm in a scratch copy and store under /verif/seeded/<dest-id>
src=$1; id=$2; prop=$3
W=/dev/shm/seedchk_$$
rm -rf $W; mkdir -p $W && git -C /repo archive HEAD | tar -x -C $W
cd $W && git init -q . 2>/dev/null >/dev/null
demo_clean=$(cd $W && PYTHONPATH=$W/src timeout 60 /venv/bin/python $src/demo.py >/dev/null 2>&1; echo $?)
if ! (cd $W && git apply $src/patch.diff 2>/dev/null || patch -p1 -s < $src/patch.diff); then echo "$id: PATCH FAILED"; rm -rf $W; exit 1; fi
suite=$(cd $W && PYTHONPATH=$W/src timeout 600 /venv/bin/python -m pytest -q -p no:cacheprovider --no-cov -n 6 2>&1 | tail -1)
demo_mut=$(cd $W && PYTHONPATH=$W/src timeout 60 /venv/bin/python $src/demo.py >/dev/null 2>&1; echo $?)
rm -rf $W
echo "$id: demo(clean)=$demo_clean demo(changed)=$demo_mut suite=[$suite]"
if [ "$demo_clean" = "0" ] && [ "$demo_mut" != "0" ] && echo "$suite" | grep -q "795 passed"; then
  mkdir -p /verif/seeded/$id && cp $src/patch.diff $src/demo.py /verif/seeded/$id/ && cp $src/notes.txt /verif/seeded/$id/notes.txt 2>/dev/null
  echo "$id CONFIRMED"
else
  echo "$id NOT CONFIRMED"
fi
