#!/bin/bash
# Applies every kept seed to /repo in turn, runs the quick check of its property, reverts. Prints one line per seed.
cd /verif
for d in seeded/*/; do
  id=$(basename $d); prop=${id%%-*}
  if grep -q "\"status\": \"obsolete" /verif/$d/meta.json 2>/dev/null; then echo "$id OBSOLETE (see meta.json)"; continue; fi
  cd /repo && git apply /verif/$d/patch.diff 2>/dev/null || { echo "$id PATCH-DOES-NOT-APPLY"; cd /verif; continue; }
  out=$(cd /verif && timeout 300 /venv/bin/python -m wverif check $prop --no-write 2>&1)
  code=$?
  git -C /repo checkout -- . 
  first=$(echo "$out" | grep -E "^  C" | head -1 | cut -c1-120)
  echo "$id exit=$code $first"
  cd /verif
done
git -C /repo status --short | head -3
