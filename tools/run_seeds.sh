#!/bin/bash
# Replays every kept seed: applies seeded/<id>/patch.diff to a scratch export of /repo HEAD (in /dev/shm, removed
# afterwards), runs the quick check of its property against it with --root, prints one line per seed (sorted).
# Nothing is written to /repo or to evidence/.   usage: tools/run_seeds.sh [id...]
one() {
  id=$1; prop=${id%%-*}; d=/verif/seeded/$id
  if grep -q "\"status\": \"obsolete" $d/meta.json 2>/dev/null; then echo "$id OBSOLETE (see meta.json)"; return; fi
  w=/dev/shm/seedrun_$id
  rm -rf $w; mkdir -p $w
  git -C /repo archive HEAD | tar -x -C $w
  if ! (cd $w && git apply --unsafe-paths --directory=$w $d/patch.diff 2>/dev/null || patch -s -p1 -d $w < $d/patch.diff >/dev/null 2>&1); then echo "$id PATCH-DOES-NOT-APPLY"; rm -rf $w; return; fi
  out=$(cd /verif && timeout 300 /venv/bin/python -m wverif check $prop --root $w --no-write 2>&1)
  code=$?
  rm -rf $w
  first=$(echo "$out" | grep -E "^  C" | head -1 | cut -c1-120)
  echo "$id exit=$code $first"
}
export -f one
if [ $# -gt 0 ]; then ids="$@"; else ids=$(ls /verif/seeded); fi
printf "%s\n" $ids | xargs -P 10 -I{} bash -c 'one {}' | sort
