#!/bin/bash
# usage: tools/try_seed.sh <patch.diff> <prop> [<prop>...]   (applies to /repo, runs quick checks, reverts)
patch=$1; shift
cd /repo || exit 2
if ! git apply --check "$patch" 2>/dev/null; then echo "PATCH DOES NOT APPLY: $patch"; git apply --check "$patch"; exit 3; fi
git apply "$patch"
for p in "$@"; do
  (cd /verif && timeout 300 /venv/bin/python -m wverif check $p --no-write | grep -E "^(  C|VIOLATION|ANALYSIS-ERROR|RESULT)" | cut -c1-260)
done
git -C /repo checkout -- .
git -C /repo status --short | head -3
