#!/venv/bin/python
"""tools/mkmeta.py <seed-id> <detected_by text> : write /verif/seeded/<id>/meta.json from notes.txt"""
import json, os, sys
sid, det = sys.argv[1], sys.argv[2]
d = "/verif/seeded/" + sid
notes = open(os.path.join(d, "notes.txt")).read().splitlines() if os.path.exists(os.path.join(d, "notes.txt")) else []
meta = {
    "id": sid, "property": sid.split("-")[0],
    "source": "independent sub-agent given only the property text and a scratch worktree",
    "needs_to_manifest": [l for l in notes if l.strip()][:14],
    "confirmed": {"applies_to": "/repo HEAD at confirmation time", "suite_with_change": "795 passed, 8 skipped", "demo_unchanged": "exit 0 (PASS)",
                  "demo_changed": "exit 1 (FAIL)", "how": "tools/confirm_seed.sh in a scratch copy under /dev/shm, removed afterwards"},
    "detected_by": det,
}
json.dump(meta, open(os.path.join(d, "meta.json"), "w"), indent=1)
print("wrote", d + "/meta.json")
