#!/venv/bin/python
"""Regenerate wverif/reference_names.json: the names today's tree gives to its
locals, keyed by what they are bound to.  The rules were written against these
names; on a later tree locals bound to the same thing are alpha-renamed back
before a rule looks (wverif/inline.py: alpha_normalise)."""
import json
import sys

sys.path.insert(0, "/verif")
from wverif.inline import reference_table  # noqa: E402
from wverif.model import Program  # noqa: E402

root = sys.argv[1] if len(sys.argv) > 1 else "/repo"
tab = reference_table(Program.from_repo(root))
with open("/verif/wverif/reference_names.json", "w") as fh:
    json.dump(tab, fh, indent=0, sort_keys=True)
print("functions:", len([k for k in tab if not k.startswith("__")]), "keys:", sum(len(v["keys"]) for k, v in tab.items() if not k.startswith("__")), "shapes:", sum(len(v) for v in tab["__shapes__"].values()))
